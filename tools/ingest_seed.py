#!/usr/bin/env python3
"""Confirm a sub-agent's seeded change in a fresh scratch worktree and store it under /verif/seeded/<pid>-<tag>/.

usage: ingest_seed.py <pid> <tag> [--checks C04,C05] [--tier quick] [--no-tests]
Steps (all in a fresh worktree of /repo HEAD under /tmp, removed afterwards):
  demo on unmodified tree (must exit 0) -> apply patch -> demo (must exit != 0) -> pinned suite vs BASELINE (must pass)
  -> our check(s) with KDVERIF_REPO=<worktree> (want exit 1 + VIOLATION) -> meta.json
"""
import argparse, json, os, shutil, subprocess, sys, tempfile, time

ap = argparse.ArgumentParser()
ap.add_argument("pid"); ap.add_argument("tag")
ap.add_argument("--checks"); ap.add_argument("--tier", default="quick"); ap.add_argument("--no-tests", action="store_true")
ap.add_argument("--src")
a = ap.parse_args()
src = a.src or f"/tmp/kdseed_{a.pid}_{a.tag}"
dst = f"/verif/seeded/{a.pid}-{a.tag}"
os.makedirs(dst, exist_ok=True)
if os.path.exists(src):
    # always regenerate the patch from the agent's worktree (library files only)
    diff = subprocess.run(["git", "-C", src + "/wt", "diff", "--", "kappadata"], capture_output=True, text=True).stdout
    if diff.strip():
        open(dst + "/patch.diff", "w").write(diff)
    elif os.path.exists(src + "/patch.diff"):
        shutil.copy(src + "/patch.diff", dst + "/patch.diff")
    for f in ("demo.py", "notes.md"):
        if os.path.exists(f"{src}/{f}"):
            shutil.copy(f"{src}/{f}", f"{dst}/{f}")
d = tempfile.mkdtemp(prefix="kdingest_", dir="/tmp")
wt = d + "/wt"
meta = {"property": a.pid, "id": f"{a.pid}-{a.tag}", "confirmed_at": time.strftime("%Y-%m-%d %H:%M:%S"),
        "repo_head": subprocess.run(["git", "-C", "/repo", "rev-parse", "--short", "HEAD"], capture_output=True, text=True).stdout.strip()}
try:
    subprocess.check_call(["git", "-C", "/repo", "worktree", "add", "--detach", "-f", wt, "HEAD"], stdout=subprocess.DEVNULL, stderr=subprocess.DEVNULL)
    shutil.copy(dst + "/demo.py", d + "/demo.py")
    env = dict(os.environ, PYTHONPATH=wt)
    def demo():
        r = subprocess.run(["/venv/bin/python", "../demo.py"], cwd=wt, env=env, capture_output=True, text=True, timeout=1800)
        return r.returncode, (r.stdout + r.stderr)[-600:]
    rc0, out0 = demo()
    meta["demo_unmodified_exit"] = rc0
    ap_ = subprocess.run(["git", "-C", wt, "apply", dst + "/patch.diff"], capture_output=True, text=True)
    if ap_.returncode != 0:
        print("PATCH DOES NOT APPLY:", ap_.stderr); meta["applies"] = False
    else:
        meta["applies"] = True
        rc1, out1 = demo()
        meta["demo_patched_exit"] = rc1
        meta["demo_patched_tail"] = out1[-300:]
        if a.no_tests:
            # keep the pinned-suite result of an earlier full ingest of the same patch
            try:
                old = json.load(open(dst + "/meta.json"))
                for k in ("pinned_suite", "pinned_suite_ok"):
                    if k in old:
                        meta[k] = old[k]
            except Exception:
                pass
        if not a.no_tests:
            t = subprocess.run(["/verif/tools/baseline.sh", wt], capture_output=True, text=True)
            meta["pinned_suite"] = t.stdout.strip().splitlines()[0] if t.stdout.strip() else "?"
            meta["pinned_suite_ok"] = t.returncode == 0
        meta["checks"] = {}
        for c in (a.checks or a.pid).split(","):
            r = subprocess.run(["/venv/bin/python", "-m", "kdverif", "check", c, "--tier", a.tier], cwd="/verif",
                               env=dict(os.environ, KDVERIF_REPO=wt), capture_output=True, text=True)
            sigs = [l.strip() for l in r.stdout.splitlines() if l.strip().startswith("signature:")]
            meta["checks"][c] = {"tier": a.tier, "exit": r.returncode, "violation_lines": sum(1 for l in r.stdout.splitlines() if l.startswith("VIOLATION")),
                                 "first_signatures": sigs[:3]}
            if r.returncode == 2:
                print(r.stdout[-2000:], r.stderr[-1000:])
    meta["what_ran"] = "fresh worktree of /repo HEAD under /tmp: demo.py before/after patch, pinned suite vs BASELINE.json, kdverif checks with KDVERIF_REPO=<worktree>"
    notes = open(dst + "/notes.md").read() if os.path.exists(dst + "/notes.md") else ""
    meta["needs_to_manifest"] = meta.get("needs_to_manifest") or notes[:1500]
    json.dump(meta, open(dst + "/meta.json", "w"), indent=1)
    print(json.dumps({k: v for k, v in meta.items() if k != "needs_to_manifest"}, indent=1))
finally:
    subprocess.run(["git", "-C", "/repo", "worktree", "remove", "--force", wt], stdout=subprocess.DEVNULL, stderr=subprocess.DEVNULL)
    shutil.rmtree(d, ignore_errors=True)
    subprocess.run(["git", "-C", "/repo", "worktree", "prune"])
