#!/usr/bin/env python3
"""Ingest every finished seed of a wave (tag): /tmp/kdseed_<PID>_<tag>/{patch.diff or wt diff, demo.py}. Prints one line per seed.
usage: ingest_wave.py <tag> [--no-tests] [--keep] [PID ...]"""
import glob, json, os, subprocess, sys
tag = sys.argv[1]
flags = [a for a in sys.argv[2:] if a.startswith("--")]
only = [a for a in sys.argv[2:] if not a.startswith("--")]
for d in sorted(glob.glob(f"/tmp/kdseed_*_{tag}")):
    pid = os.path.basename(d).split("_")[1]
    if only and pid not in only:
        continue
    if not os.path.exists(d + "/demo.py"):
        print(pid, "no demo.py yet"); continue
    cmd = ["python3", "/verif/tools/ingest_seed.py", pid, tag] + [f for f in flags if f == "--no-tests"]
    try:
        subprocess.run(cmd, capture_output=True, text=True, timeout=2400)
    except subprocess.TimeoutExpired:
        print(pid, "INGEST TIMEOUT"); continue
    m = json.load(open(f"/verif/seeded/{pid}-{tag}/meta.json"))
    chk = m.get("checks", {}).get(pid, {})
    print(f"{pid}-{tag}: demo {m.get('demo_unmodified_exit')}->{m.get('demo_patched_exit')} suite_ok={m.get('pinned_suite_ok')} "
          f"check_exit={chk.get('exit')} sig={(chk.get('first_signatures') or [''])[0][:110]}", flush=True)
    if "--keep" not in flags:
        subprocess.run(["git", "-C", "/repo", "worktree", "remove", "--force", d + "/wt"], capture_output=True)
        subprocess.run(["rm", "-rf", d])
subprocess.run(["git", "-C", "/repo", "worktree", "prune"])
