#!/usr/bin/env python3
"""Re-run the quick check of every archived seeded change (seeded/<ID>-<tag>/patch.diff) in scratch worktrees of /repo HEAD.
usage: resweep.py [tag ...]   (default: all)   -> one line per seed; exit 1 if any seed is no longer detected"""
import glob, json, os, subprocess, sys
tags = sys.argv[1:]
bad = 0
for d in sorted(glob.glob("/verif/seeded/*")):
    name = os.path.basename(d)
    pid, tag = name.split("-")
    if tags and tag not in tags:
        continue
    r = subprocess.run(["python3", "/verif/tools/ingest_seed.py", pid, tag, "--no-tests"], capture_output=True, text=True, timeout=3600)
    m = json.load(open(d + "/meta.json"))
    chk = m.get("checks", {}).get(pid, {})
    ok = chk.get("exit") == 1 and m.get("demo_unmodified_exit") == 0 and m.get("demo_patched_exit") not in (0, None)
    bad += not ok
    print(f"{name}: demo {m.get('demo_unmodified_exit')}->{m.get('demo_patched_exit')} check_exit={chk.get('exit')} "
          f"{'ok' if ok else 'PROBLEM'} sig={(chk.get('first_signatures') or [''])[0][:100]}", flush=True)
subprocess.run(["git", "-C", "/repo", "worktree", "prune"])
sys.exit(1 if bad else 0)
