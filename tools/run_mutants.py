#!/usr/bin/env python3
"""Detection regression: applies every mutant of mutants/mutants.json (one at a time) in a scratch git worktree of /repo,
runs the named quick check with KDVERIF_REPO=<worktree> and records whether it exits 1 with a VIOLATION line.
With --tests the pinned suite is run on each mutant as well (slow). Writes mutants/results.json.

usage: run_mutants.py [--only C04] [--tests] [--jobs 4]
"""
import argparse, concurrent.futures as cf, json, os, shutil, subprocess, tempfile, time

V = os.path.dirname(os.path.dirname(os.path.abspath(__file__)))
ap = argparse.ArgumentParser()
ap.add_argument("--only"); ap.add_argument("--tests", action="store_true"); ap.add_argument("--jobs", type=int, default=3)
a = ap.parse_args()
muts = json.load(open(os.path.join(V, "mutants", "mutants.json")))
if a.only:
    muts = [m for m in muts if m["check"] == a.only or m["id"] == a.only]


def run(m):
    d = tempfile.mkdtemp(prefix="kdmutreg_", dir="/tmp")
    wt = d + "/wt"
    out = dict(id=m["id"], check=m["check"], why=m["why"])
    try:
        subprocess.check_call(["git", "-C", "/repo", "worktree", "add", "--detach", "-f", wt, "HEAD"], stdout=subprocess.DEVNULL, stderr=subprocess.DEVNULL)
        p = os.path.join(wt, m["file"])
        s = open(p).read()
        if s.count(m["old"]) != 1:
            out["status"] = f"stale (old text occurs {s.count(m['old'])} times)"
            return out
        open(p, "w").write(s.replace(m["old"], m["new"]))
        if a.tests:
            t = subprocess.run([os.path.join(V, "tools", "baseline.sh"), wt], capture_output=True, text=True)
            out["pinned_suite_ok"] = t.returncode == 0
        t0 = time.time()
        r = subprocess.run(["/venv/bin/python", "-m", "kdverif", "check", m["check"], "--tier", "quick"], cwd=V,
                           env=dict(os.environ, KDVERIF_REPO=wt, KDVERIF_NPROC="5"), capture_output=True, text=True)
        sigs = [l.strip()[11:] for l in r.stdout.splitlines() if l.strip().startswith("signature:")]
        out.update(exit=r.returncode, detected=r.returncode == 1 and "VIOLATION property=" in r.stdout, first_signature=sigs[:1], wall_s=round(time.time() - t0, 1))
        out["status"] = "detected" if out["detected"] else ("harness error" if r.returncode == 2 else "MISSED")
        return out
    finally:
        subprocess.run(["git", "-C", "/repo", "worktree", "remove", "--force", wt], stdout=subprocess.DEVNULL, stderr=subprocess.DEVNULL)
        shutil.rmtree(d, ignore_errors=True)


res = []
with cf.ThreadPoolExecutor(a.jobs) as ex:
    for o in ex.map(run, muts):
        print(f"{o['id']:8s} {o['status']:10s} {o.get('first_signature', [''])[0][:110] if o.get('first_signature') else ''}", flush=True)
        res.append(o)
subprocess.run(["git", "-C", "/repo", "worktree", "prune"])
if not a.only:
    json.dump(res, open(os.path.join(V, "mutants", "results.json"), "w"), indent=1)
print(f"{sum(1 for o in res if o['status'] == 'detected')}/{len(res)} detected")
