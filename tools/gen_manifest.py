#!/usr/bin/env python3
"""Regenerates /verif/MANIFEST.json from the table below (kept in one place so it is always schema-valid)."""
import json, os, sys
V = os.path.dirname(os.path.dirname(os.path.abspath(__file__)))
PY = "/venv/bin/python"

CHECKS = {
    # id: (engine, category, technique, text, note, design_ref)
    "C01": ("E1-choice", "exploration",
            "exhaustive enumeration of mode strings x stacks x sizes x index forms x access histories against a per-item specification",
            "Every mode string of length <=3 (quick) / <=4 (thorough) over {x, class, a, b, index, ctx.ka, ctx.kb} (stated domain), with and without context, on ten wrapper stacks (identity wrappers, fused-operation wrappers with 2- and 3-member groups, two disjoint groups, nested fused wrappers, TorchWrapper) and three shipped fused stacks, for every dataset size 1..3(4) and every int index in [-n,n): position-by-position values, bare-vs-tuple shape, context presence and exact key set (samples record different keys, so a stale context is visible), joint loading of declared groups (shared nonce). Slices, index lists, iteration, len against list semantics, and every access sequence of length <=3 on one object.",
            "Trusted: harness datasets/wrappers and the per-item specification in kdverif/props/c01.py. Out-of-range indices are outside the claim.",
            "DESIGN.md section 5 C01"),
    "C02": ("E1-choice", "exploration",
            "exhaustive enumeration of all stack specs up to a node bound, each checked against a Python-list reference model on every index",
            "All nestings with <=4 (quick) / <=5 (thorough) nodes of KDSubset (every index list of length <=2 over [-L,L) plus identity/reversed/duplicating), KDConcatDataset (1-3 parts, balanced sampling), identity KDWrappers and three shipped subset wrappers over bases of size 0..3: every index in [-len,len) and every item is compared with the composed list model, bulk accessors and the getall utilities with the per-sample accessors, and through linear chains every introspection query (root, wrapper lists/lookups, attribute and shape delegation, dispose / with).",
            "Trusted: list reference model; root datasets with list semantics for negative indices. Introspection through multi-part concats is outside the claim.",
            "DESIGN.md section 5 C02"),
    "C03": ("E1-choice", "exploration",
            "exhaustive enumeration of all class layouts up to a length bound x full small parameter grids, compared with per-wrapper specifications",
            "All class layouts of length 0..5 (quick) / 0..7 (thorough) over 3 declared classes x every parameter combination of the ten subset-family wrappers (percent alphabet incl. 0, 1 and non-integer boundaries, all index bounds, seeds, repetition counts, shots): selected ids are compared with exact specs where documented and relational specs (contiguous, monotone, complementary ranges partition) where rounding is not; seeded selections are rebuilt under a different global RNG state; constructors run under a CPU-time horizon of the process (termination).",
            "Trusted: the per-wrapper specs in kdverif/props/c03.py. Explicit AssertionError/NotImplementedError/ValueError rejections are accepted; empty datasets are excluded for OversamplingWrapper.",
            "DESIGN.md section 5 C03"),
    "C04": ("E3-lockstep", "model_checking",
            "explicit-state enumeration of the bounded configuration space; reference-model traces replayed in lock-step against the real generator",
            "Every configuration (N<=6 quick / <=9 thorough, every B, drop_last, drop_last_batch_size, every budget value of the three kinds, 59..507 interleaved config sets) is run on the real InterleavedSampler one next() at a time against a declarative reference model; set_epoch announcements, indices, batch-boundary flags, stopping point and termination (explicit horizon) are compared on every transition. Unit tests pin a handful of these configurations.",
            "Trusted: the reference model (kdverif/models/interleaved_ref.py, written from the statement) and harness samplers; main samplers yield len(sampler) indices (stated domain). Sizes above the bound are not covered.",
            "DESIGN.md section 5 C04"),
    "C05": ("E3-lockstep", "model_checking",
            "explicit-state enumeration of the bounded configuration space; reference-model traces replayed in lock-step against the real generator, then against the batch-sampler/dataset/collator level",
            "Every geometry/budget of C04 (N<=5 quick / <=8 thorough) plus the zero budgets, combined with every single config of a 1062-entry menu (all interval-kind mixtures, empty and short samplers, samplers shorter than their dataset, per-config batch sizes) and pairs/triples from a reduced menu: the full main+side event stream of the real generator is compared event by event with the reference model; on a sub-lattice batches are resolved through the real concat dataset and collator exactly as DataLoader(num_workers=0) does, and the real get_data_loader(0) is iterated.",
            "Trusted: reference model and recording samplers/datasets/collators. Real worker processes (num_workers>=2) are not part of the deciding step.",
            "DESIGN.md section 5 C05"),
    "C06": ("E3-lockstep", "model_checking",
            "explicit-state enumeration of configurations x epoch-boundary checkpoints; resumed real generator replayed against the suffix of the uninterrupted reference trace",
            "For every geometry, budget and config set (N<=7 quick / <=10 thorough) and every epoch-boundary checkpoint strictly before the budget, given in each of the three forms, the resumed real generator must produce exactly the suffix of the uninterrupted reference trace (set_epoch numbers, indices, side passes, stopping point); explicit constructor rejections are counted, not failed.",
            "Trusted: reference model; checkpoints off epoch boundaries are outside the stated domain.",
            "DESIGN.md section 5 C06"),
    "C07": ("E2-bfs", "model_checking",
            "explicit enumeration of operation histories (construct, calls, global-RNG perturbation, seed injection, re-injection) per transform spec with a path-independence oracle",
            "For every catalogued stochastic transform (found by walking the transform packages; uncovered classes are listed in the evidence) and compositions (compose, random-apply, patchwise, scheduled; nested to depth 2 quick / 3 thorough), all histories construct(g).call^{0..2}.[perturb].set_rng(s).call^3.set_rng(s).call^3 over two global RNG states and three seeds are executed on the real objects; the observation (outputs + context) for a state (spec, seed, inputs since injection) must be identical along every history, re-injection must replay, and the global NumPy/Torch/Python RNG states must be bit-identical across every post-injection call.",
            "Trusted: the catalogue's constructor arguments/inputs; image content and sizes beyond the catalogue are not covered; calls that raise consistently are counted, not judged here.",
            "DESIGN.md section 5 C07"),
    "C08": ("E2-bfs", "model_checking",
            "explicit enumeration of access histories and simulated workers per seeded stack with a path-independence oracle (state = (stack, sample index))",
            "Seeded transform / multi-view / mix / segmentation / ready-made wrappers over catalogue transforms and probe transforms (raw draws as output), placed bare, below a subset, below a repeat wrapper, above an identity wrapper and below a deterministic transform wrapper, over samples with identical data: every access sequence of length <=3 (<=2 for non-probe specs) with and without global-RNG perturbation on one real object, plus 1..3 simulated workers (fresh copy, own global seed, worker_init_fn) accessing every position twice; the observation (value + ctx) of sample i must be unique over all of them, and probe stacks must give different observations for different indices.",
            "Trusted: harness datasets and the digest of outputs; real DataLoader worker processes are not part of the deciding step; scheduled transforms are excluded from the worker phase (strength depends on progress by design); quick tier rotates catalogue specs over wrappers/placements (VERIF_SEED).",
            "DESIGN.md section 5 C08"),
    "C09": ("E1-choice", "exploration",
            "exhaustive product of stacks x transform specs x collators x worker sets; generator graph walk + stream-window comparison on the real objects",
            "For every catalogued transform and composition placed in seven stack shapes (transform / multi-view / subset / concat / nested / interleaved-concat / other-item wrappers), the segmentation and ready-made multi-view wrappers, five collator registrations, worker counts 2-3 and two base seeds: simulated workers (identical copies as after fork, np.random.seed(worker seed), worker_init_fn(rank)) are built from the real classes; every numpy Generator reachable from the stack is found by a graph walk; the next 16 draws of each must share no length-3 window between differently seeded workers (this also catches a generator copied at fork) and be bit-identical for equal seeds.",
            "Trusted: the graph walk (attributes, lists, dicts, dataclasses, partials of kappadata objects); user-owned containers and per-call OS-entropy generators are outside the observation; quick tier rotates which specs go on the non-basic stacks (VERIF_SEED).",
            "DESIGN.md section 5 C09"),
    "C10": ("E1-choice", "exploration",
            "stateless choice-point exploration: the collator's generator is replaced by ChoiceRng and every answer sequence within a deviation bound is executed on the real collator",
            "All constructor combinations the constructor accepts (apply/lamb/shuffle modes x mixup-only/cutmix-only/both with two splits), batch sizes 1..4, several image shapes, one-hot and binary scalar labels, three modes, with/without context: every execution with <=2 (quick) / <=3 (thorough) non-default RNG answers (unit draws on both sides of each threshold, 4 beta values, every box centre, every permutation) is run; partner and weight are decoded independently from id-coded pixels and from the label rows and must agree with each other, with the shuffle mode and with the weight reported in the context. The MAE fine-tune collator is explored with the full product.",
            "Trusted: the decoder in kdverif/props/c10.py; answers between alphabet points are not covered; deviation-bounded, not a full product, for B>=2.",
            "DESIGN.md section 5 C10"),
    "C11": ("E1-choice", "exploration",
            "stateless choice-point exploration with a module shim (np.random.default_rng inside kd_mix_wrapper answers with ChoiceRng): full product of RNG answers",
            "For datasets of 2..4 id-coded samples, 2..4 classes, equal and differing shapes (pad_or_cut_end), p in {0.3,1}, every index and six mode orders, the full product of the per-sample generator's answers (apply draw around the threshold, every partner, 4 weights) is executed on the real wrapper; the output must be explained by one (partner, weight) for image and label together, found by search over all partners; p=1 must mix; real seeded generators (seeds 0..7) check that image-only, label-only, joint and repeated requests describe one draw.",
            "Trusted: the explanation search in kdverif/props/c11.py; cutmix raises NotImplementedError (outside the claim).",
            "DESIGN.md section 5 C11"),
    "C12": ("E3-lockstep", "model_checking",
            "explicit-state enumeration of sampler configurations; reference model = the world-size-1 global draw, replayed against every rank's real stream; permutation answers enumerated with a torch proxy",
            "Distributed, class-balanced and weighted samplers for every dataset size 1..6 (quick) / 1..8 (thorough), world sizes 1..4 (incl. larger than the dataset), every rank, epochs 0..3, seeds 0..2, num_repeats 1..3, drop_last and shuffle on/off: the rank streams of the real samplers are interleaved and compared index by index with the single global draw (only a tail dropped or the head wrapped around), every rank must yield len(sampler) entries, the global draw itself must be a permutation / runs of num_repeats consecutive slots, equal (seed, epoch) must reproduce and set_epoch must change the draw (n>=6). For sizes <=4 every answer of the permutation draw is enumerated (module-global torch replaced by a proxy, same answers replayed on every rank). RandomSampler covers the single-process repeat clause.",
            "Trusted: the world-size-1 stream as definition of the global draw (its validity is checked separately); torch's own DistributedSampler for num_repeats=1.",
            "DESIGN.md section 5 C12"),
    "C13": ("E1-choice", "exploration",
            "exhaustive enumeration of label layouts x sampler parameters x world sizes with seeded draws, plus full enumeration of permutation/multinomial answers (torch proxy) for pools <=4",
            "All class layouts of length 2..5 (quick) / 2..6 (thorough) with every class present, all labeled/unlabeled splits, samples_per_class None/1..4, chunk sizes 1..3 x 1..3, the three length modes, weight vectors over {0,1,3}, sizes, world sizes 1..3: exact per-class counts over all ranks, even reuse, strict alternation, duplicate-free aligned pool windows, equal and differently seeded rank streams (two large layouts), no repeated index, valid indices and the documented epoch length are checked on the real samplers for seeds 0..2 x epochs 0..1 and, for small pools, for every answer of every random draw.",
            "Trusted: oracle formulas in kdverif/props/c13.py taken from the samplers' docstrings; weighted sampler sizes above the number of non-zero weights are outside the domain.",
            "DESIGN.md section 5 C13"),
    "C14": ("E1-choice", "exploration",
            "stateless choice-point exploration (ChoiceRng via set_rng: integer draws over their full range, uniform draws at range ends and middle) over a grid of input sizes and configurations, with coordinate-coded inputs decoded exactly",
            "Random crop / two-crop / resized crop / simple crop, random erasing, spec-augment, the segmentation-pair transforms (direct and through the segmentation-transform wrapper, seeded and unseeded), patchify/unpatchify (also around patch shuffles with the recorded permutation) and all normalisers: image sizes {1..6}^2 plus extreme aspects, targets 1..6 and non-square, paddings, pad_if_needed, tensor and PIL, three scale and two ratio ranges, mask parameters up to size+1, every patch size dividing the image; full product of RNG answers where small, otherwise every execution with <=2 non-default answers (cap reported). Output size, box inside the (padded) input, output == torchvision functional op applied by hand with the recorded parameters, one admissible erased rectangle / contiguous bands, mask pixel decodes to the same source pixel as the image pixel, inverses exact (normalisers within 1e-5).",
            "Trusted: the coordinate coding / decoding in kdverif/props/c14.py and torchvision's functional ops as the by-hand reference; interpolation forced to nearest; continuous draws only at alphabet points.",
            "DESIGN.md section 5 C14"),
    "C15": ("E2-bfs", "model_checking",
            "BFS over factor sequences with the parameter vector as state (path-independence oracle) + lock-step simulation of round-robin workers for the scheduled transform",
            "Every transform class that supports strength scaling (found by introspection, 2-3 constructor settings each) and compositions: all factor sequences of length <=3 (quick, 4 factors) / <=4 (thorough, 5 factors) are applied to real objects; the numeric parameter vector after a path ending in f must equal fresh.scale(f), f=1 must restore the constructed ranges exactly, f=0 must be the weakest setting, every bound must move monotonically and og_* values must never change; sampled parameters at the range ends (ChoiceRng) tie the state to behaviour. Scheduled transform: 1..4 simulated round-robin workers x batch sizes 1..3 x 1..8 batches x three budget kinds; strength in ctx and applied to every sample of global batch b must equal the schedule's value at b.",
            "Trusted: the weakest-setting table and parameter-vector extraction in kdverif/props/c15.py; partial final batches are outside the stated domain.",
            "DESIGN.md section 5 C15"),
    "C16": ("E1-choice", "exploration",
            "exhaustive enumeration of label layouts x the parameter grid of every label-rewriting wrapper, checked against relational oracles on the real wrappers",
            "All label layouts of length 1..4 (quick) / 1..5 (thorough) over 2..4 declared classes x the full small parameter grid of the ten label-rewriting wrappers (group sizes dividing the class count, split counts, swap probabilities, hard/soft/thresholded/top-k pseudo labels with seeds and temperatures, world sizes, random-class modes, semi percentages, smoothing values): bulk (library getall) vs per-sample labels, label range vs getshape_class, wrapped data and wrapped label list untouched, reproducibility under a different global RNG state, encodings non-negative/sum one/original class maximal, and a bulk-consuming wrapper on top.",
            "Trusted: harness base dataset that hands out its internal label list; two known findings (vector-label wrappers without bulk accessor) are listed in known_findings.json.",
            "DESIGN.md section 5 C16"),
    "C17": ("E1-choice", "exploration",
            "stateless choice-point exploration (ChoiceRng injected via set_rng) with a deviation bound, plus real seeded generators as one more bounded dimension",
            "DINO mask collator on grids 3x3..6x6, two ratio ranges, three mask probabilities, 1-2 views, batch sizes 1..4, min patch counts; I-JEPA collator on grids 4..8, three scale/aspect menus restricted to the stated domain (computed per configuration), 1-2 encoder and 1-3 predictor masks, min_keep 0..3, tries=1, steps 0..3: every execution with <=1 (quick) / <=2 (thorough) non-default RNG answers (capped per configuration; caps hit are counted and the run is then not called exhaustive) and real generators with seeds 0..15 are run on the real collators; oracles from the statement (count and ratio budget, boolean grid shape, index tensors in range/sorted/unique, predictor rectangles of one size, encoder/predictor disjointness where claimed, common lengths, block size a function of the step only, batch passes through).",
            "Trusted: domain computation (block sizes per step taken from the collator's own size sampling with torch's seeded generator); executions beyond the deviation bound / cap are not covered.",
            "DESIGN.md section 5 C17"),
    "C18": ("E1-choice", "exploration",
            "exhaustive enumeration of collator sequences x modes x context settings x entry points against a reference model of the single default collation",
            "Every sequence of 1..3 recording collators over collation modes {None, before, after} (with and without added context keys) through the compose collator, the single collator called directly and the single-collator wrapper, three dataset modes, with/without per-sample contexts, batch sizes 1..3: default_collate calls are counted by a harness wrapper and compared with the reference model (exactly one collation at the position asked for, what each member observes, sequences that must be rejected), output layout and content, (batch, ctx) iff configured, context keys neither lost nor invented and batched; shipped mix+mask collators in one pipeline; padding collator on every length profile {1,2,3}^b (b<=3) with fixed, second variable-length and scalar fields.",
            "Trusted: the reference model's reading of which sequences are acceptable (collation asked for twice / uncollated batch requested after collation must be rejected).",
            "DESIGN.md section 5 C18"),
    "C19": ("E4-sched", "model_checking",
            "stateless exploration of all thread interleavings (iterative preemption bounding) of the real cache code under a controlled scheduler with scheduling points at shared-dict operations",
            "1..3 reader threads execute the real SharedDictDataset.__getitem__ / dispose; the Manager dict is replaced by an in-process SchedDict that pickles on store, unpickles on load and yields to the scheduler before every operation (the atomicity a Manager proxy gives separate processes; bound to the real Manager dict by replaying all 399 operation sequences of depth <=3 against both). Every program tuple (<=2 accesses per reader over two colliding indices, one clear at any position), 5 payload types, 3 post-cache transforms, every schedule with preemption bound 0,1,2 and unbounded (R<=2) is executed; values must equal transform(base[i]), no exception, transform once per access. All single-reader operation sequences of length <=4: at most one load per sample between clears, reload after a clear.",
            "Trusted: the atomicity model and SchedDict conformance; quick tier rotates payload x transform pairs for R>=2 with VERIF_SEED; real processes are not the deciding step.",
            "DESIGN.md section 5 C19"),
    "C20": ("E5-crash", "fault_enumeration",
            "exhaustive crash-point enumeration on the real code over a real directory tree: every file-system mutation point of every attempt, crash histories to depth D, explicit-state dedup on tree digests",
            "For plain-folder / single-zip / folder-of-zips sources, with and without relative_path, initial local state absent / parent exists / user-provided folder / completed copy, num_workers 0/1, both listing orders and both copy functions: each attempt runs in a forked child that dies with os._exit immediately before file-system mutation number k (audit hook: writing open, mkdir, unlink, rmdir, rename; wrappers: every sendfile/copy chunk, every zip extraction chunk, marker file created-but-unflushed); from every distinct crash tree the next attempt's crash points are enumerated again (depth 2 quick / 3 thorough), then an uninterrupted call and a second one: local tree byte-identical to the source + both markers (or untouched user folder), no incomplete copy reported usable, truthful result, completed copy never touched, second call performs zero mutations.",
            "Trusted: the interposer's completeness (mutation kinds listed in kdverif/core/crashfs.py); process death only (no power-loss / fsync reasoning); joblib workers (num_workers>=2) are not explored. Four known findings (two protocol windows x two functions) are listed in known_findings.json.",
            "DESIGN.md section 5 C20"),
}

# dimensions added after the seeded-change waves d / e (appended to the level text of each check)
ADDED = {
    "C01": "Also: two recorded ctx keys per item (two different ctx.<key> items fit a short mode), key spellings that collide with prefix stripping, and accesses interleaved with a sibling stack of the same kind over other data. Overlapping passes over one object (zip, nested loops, resumed pass).",
    "C02": "Also: shape delegation for seven item names, float-valued items through the getall utilities, aliasing bases, numpy / tensor index containers. One-part balanced concats, private attributes through every chain.",
    "C03": "Also: layouts with unlabeled (-1) samples for the two wrappers that define them, every wrapper stacked on a reversing sub-selection of a larger root, long layouts (17..100, thorough ..1000) for size-dependent library routines, a sparse label space. Class counts 50..200 with every percent k/100. Compact (uint8 / int8) label storage on 315- / 350-sample layouts.",
    "C04": "Also: long budgets (5 / 7 epochs) for N<=4, a second full pass over the same object, and full passes after abandoned iterations of the batch sampler and of the sampler itself. (Resume-specific arithmetic is C06's.)",
    "C05": "Also: long budgets (5 / 7 epochs) for N<=4, and dataloader-level passes after an iteration that was abandoned after one batch / inside the first side pass / half-way. Side samplers whose length changes after the scheduler was built. 9..13 configs with sparse due patterns.",
    "C06": "Also: epoch budgets 5 and 7 (thorough up to 13) for small geometries, so that late epoch-boundary checkpoints exist. Every updates-per-epoch value 8..130 (thorough ..400) with batch size 1 / 2.",
    "C07": "Also: sibling instances, inputs with extreme aspect ratios (6:1, 32:1; retry loops take their fallback), plain (non-KD) callables at every position of a composition. One-value ranges, transforms whose strength was scaled before use, inputs of another size before the injection, pad_if_needed crops.",
    "C08": "Also: the same transform object shared by two seeded wrappers, numpy-integer seeds and seed 0, requests with and without context, torch's real worker info installed for the worker phase, and every special stack / leaf transform over an in-memory dataset that hands out its stored tensors. Stored soft labels, plain callables among multi-view configs, a transform assigned after construction / first use.",
    "C09": "Also: torch's worker info is installed exactly as the worker loop does (id, num_workers, seed), and no generator of one worker may share a stream with any generator of another worker. Plain callables among multi-view configs, a transform assigned after construction.",
    "C10": "Also: int64 / float64 one-hot labels, batches of one, a second batch on a collator object that already mixed a batch of another size, and the returned batch must be unchanged after the next call of the same shape. Repeated items in the mode, images with inf / NaN pixels (cutmix).",
    "C11": "Also: soft-label datasets, in-memory datasets handing out stored tensors, seed 0, label-only / image-only / joint requests. Integer sample dtypes, a class count that changes under a live wrapper.",
    "C12": "Also: sampler-object histories, world sizes above twice the dataset size, and process-group environment histories (init / destroy / build with defaults, length <=4) with torch.distributed's answers owned by the harness. One explicit argument of (rank, world_size), random sampler sizes 31..100 with repeat counts 2..7. Rank streams computed in three interpreter processes with different PYTHONHASHSEED must agree.",
    "C13": "Also: samples_per_class up to 11 with strongly imbalanced layouts, second iterations of one object, class labels stored as numpy / torch integer dtypes on a 140-sample layout. Ranks that use their sampler objects unevenly.",
    "C14": "Also: non-square crops and inputs with extreme aspect ratios, recorded overlap vs IoU of recorded boxes, label maps with one dominant category (category-ratio retries run out). Seeded semseg pipes with image-only stochastic members, records that must survive the next call. Two-crop with padding.",
    "C15": "Also: histories over (node, factor) that scale nested members directly, zero-boundary settings, plain callables at every position of a composition, an epochs budget that keeps the last batch. Sampled magnitudes within the scaled range for extreme generator answers, apply probability in effect, scheduled transform over inherited scaling hooks.",
    "C16": "Also: tied / saturated confidences, seed 0, every wrapper stacked on each class-count-changing wrapper, label smoothing on binary datasets with unlabeled samples. Configuration through public setters, unseeded configurations. uint8 label containers for four wrappers.",
    "C17": "Also: portrait / landscape grids, tight encoder / predictor scale pairs, batch-size sequences on one collator object. Upper ratio x grid below min_num_patches, non-square patch sizes, masks handed out must survive the next call; divergent replays are violations.",
    "C18": "Also: empty per-sample contexts, a second call on the same pipeline object, members must only see this call's context keys, one collator object in two wrappers with other settings. Python float / bool fields with dtype comparison, flags as 1 / numpy.bool_, attributes reassigned after use.",
    "C19": "Also: readers are copies of one cache object (fork picture) with the Manager replaced for whole executions; sequential histories over (reader, get0 / get1 / clear / release) of length <=4 for 1-2 readers and <=3 for 3 readers with exact load accounting; falsy payloads; a wrapped dataset whose first load of every sample fails. Negative and out-of-range indices, pickled reader copies carrying the transform, the dataloader batch fetch as an operation.",
    "C20": "Also: 2-3 joblib workers on a 3-zip fixture, unreadable-zip faults (truncated / damaged member) for every zip with 0..2 (thorough 0..3) workers, upper-/mixed-case archive extensions. Pathlib arguments, unusual file names, relative links that leave the folder, directory names with glob metacharacters.",
}

NOT_APPLICABLE = {
}

def main():
    props = [json.loads(l)["id"] for l in open(os.path.join(V, "properties.jsonl"))]
    checks = []
    for pid in props:
        if pid not in CHECKS:
            continue
        eng, cat, tech, text, note, ref = CHECKS[pid]
        text = text + " " + ADDED.get(pid, "")
        checks.append({
            "property_id": pid,
            "quick_cmd": f"{PY} -m kdverif check {pid} --tier quick",
            "thorough_cmd": f"{PY} -m kdverif check {pid} --tier thorough",
            "evidence_file": f"/verif/evidence/{pid}.json",
            "replay_cmd_template": f"{PY} -m kdverif replay {{path}}",
            "engine": eng,
            "level_claimed": {"category": cat, "text": text, "design_ref": ref},
            "level_note": note,
            "technique": tech,
        })
    na = []
    for pid in props:
        if pid not in CHECKS:
            na.append({"property_id": pid, "reason": NOT_APPLICABLE.get(pid, "check not built yet (work in progress); see DESIGN.md section 5 for the planned bounded exhaustive check")})
    m = {
        "version": 1,
        "setup_cmd": f"{PY} -m kdverif selftest",
        "hooks": {
            "guard": "KAPPADATA_VERIF",
            "enable": "no source hooks exist: every seam is reached from outside (set_rng, module-global rebinding, audit hooks); checks set KAPPADATA_VERIF=1 for uniformity and import the library from $KDVERIF_REPO (default /repo)",
            "baseline_off_cmd": "cd /repo && /venv/bin/python -m pytest -ra -q -p no:cacheprovider --timeout=900 --continue-on-collection-errors",
            "source_commits": [],
            "add_only": True,
        },
        "engines": [
            {"name": "E1-choice", "path": "kdverif/core/explorer.py", "serves_properties": [p for p in CHECKS if CHECKS[p][0].startswith("E1")], "kind_free_text": "stateless DFS over choice points (RNG answers, inputs) with prefix replay and deviation bound"},
            {"name": "E2-bfs", "path": "kdverif/core/explorer.py", "serves_properties": [p for p in CHECKS if CHECKS[p][0].startswith("E2")], "kind_free_text": "explicit-state BFS over operation histories with path-independence oracles"},
            {"name": "E3-lockstep", "path": "kdverif/models", "serves_properties": [p for p in CHECKS if CHECKS[p][0].startswith("E3")], "kind_free_text": "reference model x implementation product over the complete bounded configuration space"},
            {"name": "E4-sched", "path": "kdverif/core/sched.py", "serves_properties": [p for p in CHECKS if CHECKS[p][0].startswith("E4")], "kind_free_text": "controlled thread scheduler at shared-dict operation granularity, all interleavings"},
            {"name": "E5-crash", "path": "kdverif/core/crashfs.py", "serves_properties": [p for p in CHECKS if CHECKS[p][0].startswith("E5")], "kind_free_text": "fork + os._exit crash-point enumeration over a real directory tree"},
        ],
        "checks": checks,
        "not_applicable": na,
        "notes": "All checks: cwd=/verif, `python -m kdverif check <ID> --tier quick|thorough`; VERIF_SEED rotates non-exhaustive sub-menus only. Known findings: /verif/known_findings.json. Seeded breaking changes: /verif/seeded/.",
    }
    json.dump(m, open(os.path.join(V, "MANIFEST.json"), "w"), indent=1)
    try:
        import jsonschema
        jsonschema.validate(m, json.load(open("/root/.vp/MANIFEST.schema.json")))
        print("MANIFEST valid;", len(checks), "checks;", len(na), "not claimed")
    except ImportError:
        print("written (jsonschema not available for validation)")

main()
