#!/usr/bin/env python3
"""Print detection status of archived seeded changes: tools/seed_status.py [tag]"""
import json, glob, sys, os
tag = sys.argv[1] if len(sys.argv) > 1 else None
for d in sorted(glob.glob(os.path.join(os.path.dirname(__file__), "..", "seeded", "*"))):
    name = os.path.basename(d)
    if tag and not name.endswith("-" + tag):
        continue
    try:
        m = json.load(open(os.path.join(d, "meta.json")))
    except Exception as e:
        print(name, "no meta", e); continue
    chk = m.get("checks") or m.get("check") or {}
    print(name, json.dumps({k: (v.get("exit"), (v.get("signatures") or v.get("violations") or [])[:2]) if isinstance(v, dict) else v for k, v in chk.items()})[:300])
