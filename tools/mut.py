#!/usr/bin/env python3
"""Ad-hoc mutation helper: copy /repo/kappadata (+tests) to a scratch dir, apply a text replacement or a patch,
run the given kdverif checks with KDVERIF_REPO pointing at the copy, optionally run the pinned test-suite, clean up.

usage: mut.py [--tests] [--keep] --checks C04,C05 (--patch file.diff | --file rel/path --old 'text' --new 'text')
"""
import argparse, os, shutil, subprocess, sys, tempfile

ap = argparse.ArgumentParser()
ap.add_argument("--checks", default="")
ap.add_argument("--tier", default="quick")
ap.add_argument("--tests", action="store_true")
ap.add_argument("--keep", action="store_true")
ap.add_argument("--patch")
ap.add_argument("--file")
ap.add_argument("--old")
ap.add_argument("--new")
a = ap.parse_args()

d = tempfile.mkdtemp(prefix="kdmut_", dir="/tmp")
try:
    subprocess.check_call(["git", "-C", "/repo", "worktree", "add", "--detach", "-f", d + "/r", "HEAD"],
                          stdout=subprocess.DEVNULL, stderr=subprocess.DEVNULL)
    r = d + "/r"
    # carry over uncommitted changes of /repo (normally none)
    diff = subprocess.run(["git", "-C", "/repo", "diff", "HEAD"], capture_output=True, text=True).stdout
    if diff.strip():
        subprocess.run(["git", "-C", r, "apply"], input=diff, text=True, check=True)
    if a.patch:
        subprocess.check_call(["git", "-C", r, "apply", os.path.abspath(a.patch)])
    else:
        p = os.path.join(r, a.file)
        s = open(p).read()
        if s.count(a.old) < 1:
            print("MUT: old text not found"); sys.exit(3)
        open(p, "w").write(s.replace(a.old, a.new, 1))
    print(subprocess.run(["git", "-C", r, "diff", "--stat"], capture_output=True, text=True).stdout.strip())
    rc_tests = None
    if a.tests:
        t = subprocess.run(["/venv/bin/python", "-m", "pytest", "-q", "-p", "no:cacheprovider", "--timeout=900",
                            "--continue-on-collection-errors", "-x", "-q", "--junitxml", d + "/junit.xml"],
                           cwd=r, capture_output=True, text=True, env=dict(os.environ, PYTHONPATH=r))
        tail = t.stdout.strip().splitlines()[-1:] 
        print("TESTS:", tail)
        subprocess.run(["/venv/bin/python", "/verif/tools/cmp_baseline.py", d + "/junit.xml"])
    for c in [c for c in a.checks.split(",") if c]:
        e = dict(os.environ, KDVERIF_REPO=r)
        out = subprocess.run(["/venv/bin/python", "-m", "kdverif", "check", c, "--tier", a.tier], cwd="/verif",
                             capture_output=True, text=True, env=e)
        lines = [l for l in out.stdout.splitlines() if l.startswith(("VIOLATION", "ERROR", "KNOWN", c, "  signature"))]
        print(f"== {c} exit={out.returncode}")
        print("\n".join(lines[:14]))
        if out.returncode == 2:
            print(out.stdout[-3000:], out.stderr[-2000:])
finally:
    if not a.keep:
        subprocess.run(["git", "-C", "/repo", "worktree", "remove", "--force", d + "/r"],
                       stdout=subprocess.DEVNULL, stderr=subprocess.DEVNULL)
        shutil.rmtree(d, ignore_errors=True)
        subprocess.run(["git", "-C", "/repo", "worktree", "prune"])
    else:
        print("kept", d)
