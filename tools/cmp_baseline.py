#!/usr/bin/env python3
"""Compare a junit xml against /root/.vp/BASELINE.json stable_pass: print which baseline tests do not pass."""
import json, sys, xml.etree.ElementTree as ET
base = set(json.load(open("/root/.vp/BASELINE.json"))["stable_pass"])
passed = set()
for tc in ET.parse(sys.argv[1]).getroot().iter("testcase"):
    if not any(ch.tag in ("failure", "error", "skipped") for ch in tc):
        passed.add(f"{tc.get('classname')}::{tc.get('name')}")
missing = sorted(base - passed)
print(f"BASELINE: {len(base) - len(missing)}/{len(base)} baseline tests pass; newly passing beyond baseline: {len(passed - base)}")
for m in missing[:20]:
    print("  MISSING", m)
sys.exit(1 if missing else 0)
