#!/usr/bin/env python3
"""Prints the prompt for a breakage sub-agent: property text + its own scratch worktree. Nothing from /verif."""
import json, sys, subprocess, os
pid, tag = sys.argv[1], (sys.argv[2] if len(sys.argv) > 2 else "a")
props = {json.loads(l)["id"]: json.loads(l) for l in open("/verif/properties.jsonl")}
p = props[pid]
wt = f"/tmp/kdseed_{pid}_{tag}/wt"
if not os.path.exists(wt):
    os.makedirs(os.path.dirname(wt), exist_ok=True)
    subprocess.check_call(["git", "-C", "/repo", "worktree", "add", "--detach", "-f", wt, "HEAD"], stdout=subprocess.DEVNULL, stderr=subprocess.DEVNULL)
extra = sys.argv[3] if len(sys.argv) > 3 else ""
print(f"""You are helping to evaluate a verification framework by producing ONE realistic, subtle bug ("seeded change") in a Python library.

The library is BenediktAlkin/KappaData (PyTorch dataset utilities). You have your own scratch git worktree of it at:
    {wt}
Work ONLY inside {os.path.dirname(wt)} (the worktree and its parent directory). Do NOT read or touch /repo, /verif or any other directory; do not commit anything; do not create other worktrees.

The semantic property you must break:

    Title: {p['title']}
    Statement: {p['statement']}
    Quantified over: {p['quantifier']['text']}
    Code it is anchored in: {', '.join(p['anchors']['files'])}

Your task: make a small source change inside {wt}/kappadata that makes the library violate this property for SOME inputs, while
  (a) the code still imports/compiles, and
  (b) the existing test-suite still passes exactly as before, and
  (c) the violation needs something specific to manifest - a particular multi-step sequence of operations, an unusual-but-legal input (boundary size, particular parameter combination), a particular interleaving or crash point, or two cooperating sites that each look fine alone. It must NOT be something ordinary use would expose at once (e.g. do not break the default/common path). Think of the kind of bug that survives code review: an off-by-one on a boundary, a wrong variable in a rarely taken branch, state that leaks between calls, a cursor advanced too early, a condition that is right for the common configuration only.
{extra}
How to run things (the python environment is /venv; the installed 'kappadata' points elsewhere, so ALWAYS run from inside the worktree with PYTHONPATH set so that YOUR copy is imported):
    cd {wt} && PYTHONPATH={wt} /venv/bin/python -m pytest -q -p no:cacheprovider --timeout=900 --continue-on-collection-errors 2>&1 | tail -5
  NOTE: on the unmodified tree about 376 tests pass and a handful (3-7) fail (pre-existing failures). First run the suite once on the unmodified worktree and save the list of passing tests (e.g. with --junitxml or `-rA`), then after your change verify that the same tests still pass (no previously-passing test may fail). There is no network.
  Verify your script imports your copy: `cd {wt} && PYTHONPATH={wt} /venv/bin/python -c "import kappadata; print(kappadata.__file__)"` must print a path under {wt}.

Deliverables, all in {os.path.dirname(wt)}/ (the parent of the worktree):
  1. patch.diff   - output of `git -C {wt} diff` (only the library change; do not modify or add tests inside the worktree; only files under kappadata/).
  2. demo.py      - a small standalone program (run as `cd {wt} && PYTHONPATH={wt} /venv/bin/python ../demo.py`) that exits 0 and prints PASS on the unmodified code and exits 1 (assertion failure, printing what differed) with your change applied. It should demonstrate the property violation through the library's public behaviour. Do NOT hard-code or assert the worktree path inside demo.py (it will later be run against another checkout via PYTHONPATH).
  3. notes.md     - 5-15 lines: what you changed, why it breaks the property, exactly what is needed for it to manifest (inputs / sequence / configuration), why the existing tests do not notice.
Leave the worktree WITH your change applied when you finish. Confirm in your final answer: number of tests passing before and after, demo result before and after (to check the unmodified behaviour use `git diff > ../p.diff; git apply -R ../p.diff; ...; git apply ../p.diff` inside the worktree - do NOT use `git stash`: the stash is shared between all worktrees of the repository and other people work in sibling worktrees), and a one-paragraph description of the change.
""")
