#!/bin/sh
# Runs the pinned suite on a tree (default /repo) and compares with BASELINE.json stable_pass.
R=${1:-/repo}
J=$(mktemp /tmp/junit.XXXXXX.xml)
(cd "$R" && PYTHONPATH="$R" /venv/bin/python -m pytest -q -p no:cacheprovider --timeout=900 --continue-on-collection-errors --junitxml="$J" >/dev/null 2>&1)
/venv/bin/python /verif/tools/cmp_baseline.py "$J"; rc=$?
rm -f "$J"; exit $rc
