from .core.cli import main
main()
