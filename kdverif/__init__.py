"""kdverif - bounded exhaustive exploration (model checking) of KappaData properties."""
