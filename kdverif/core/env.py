"""Import the library under test from $KDVERIF_REPO (default /repo), once, in the warm parent."""
import os
import sys
import warnings

REPO = os.environ.get("KDVERIF_REPO", "/repo")
VERIF = os.path.dirname(os.path.dirname(os.path.dirname(os.path.abspath(__file__))))
GUARD = "KAPPADATA_VERIF"


def setup():
    os.environ.setdefault(GUARD, "1")
    os.environ.setdefault("OMP_NUM_THREADS", "1")
    os.environ.setdefault("MKL_NUM_THREADS", "1")
    if sys.path[0] != REPO:
        sys.path.insert(0, REPO)
    warnings.filterwarnings("ignore")
    import torch
    torch.set_num_threads(1)
    import kappadata
    got = os.path.dirname(os.path.dirname(os.path.abspath(kappadata.__file__)))
    if os.path.realpath(got) != os.path.realpath(REPO):
        print(f"ERROR kappadata imported from {got}, expected {REPO}")
        sys.exit(2)
    return kappadata
