"""ChoiceRng - a numpy.random.Generator look-alike whose every draw is a choice point of the explorer.

Only the part of the Generator API that the library uses is provided. Alphabets are small and explicit;
answer 0 of every alphabet is the *default* answer (deviation bounding counts non-default answers).
"""
import itertools
import math

import numpy as np

from .runner import HarnessError


def perm_menu(n):
    """All n! permutations for n <= 4, otherwise a 6-entry menu. Identity first (default answer)."""
    if n <= 4:
        return [list(p) for p in itertools.permutations(range(n))]
    ident = list(range(n))
    menu = [ident, ident[::-1], ident[1:] + ident[:1], ident[-1:] + ident[:-1],
            [ident[-1]] + ident[1:-1] + [ident[0]], ident[n // 2:] + ident[:n // 2]]
    out = []
    for m in menu:
        if m not in out:
            out.append(m)
    return out


class ChoiceRng:
    def __init__(self, chooser, unit=(0.0, 0.25, 0.5, 0.75, 1 - 1e-9), frac=(0.0, 0.5, 1 - 1e-9),
                 beta=(0.5, 0.02, 0.25, 0.98), z=(0.0, -1.0, 1.0, 3.0), int_full=8, name="rng"):
        self.ch = chooser
        self.unit = tuple(unit)
        self.frac = tuple(frac)
        self.beta_vals = tuple(beta)
        self.z = tuple(z)
        self.int_full = int_full
        self.name = name
        self.log = []  # (method, value) in call order - lets oracles see what was answered

    # ------------------------------------------------------------------ helpers
    def _pick(self, alphabet, label):
        v = alphabet[self.ch.choose(len(alphabet), f"{self.name}.{label}")]
        self.log.append((label, v))
        return v

    @staticmethod
    def _shape(size):
        if size is None:
            return None
        if isinstance(size, (int, np.integer)):
            return (int(size),)
        return tuple(int(s) for s in size)

    def _fill(self, size, fn, dtype):
        shape = self._shape(size)
        if shape is None:
            return fn()
        n = int(np.prod(shape)) if shape else 1
        return np.array([fn() for _ in range(n)], dtype=dtype).reshape(shape)

    # ------------------------------------------------------------------ Generator API subset
    def random(self, size=None):
        return self._fill(size, lambda: float(self._pick(self.unit, "random")), np.float64)

    def uniform(self, low=0.0, high=1.0, size=None):
        low, high = float(low), float(high)
        return self._fill(size, lambda: low + float(self._pick(self.frac, "uniform")) * (high - low), np.float64)

    def _int_alphabet(self, lo, hi):
        n = hi - lo
        if n <= 0:
            raise ValueError("low >= high")
        if n <= self.int_full:
            return tuple(range(lo, hi))
        mid = lo + n // 2
        out = []
        for v in (lo, lo + 1, mid, hi - 2, hi - 1):
            if v not in out:
                out.append(v)
        return tuple(out)

    def integers(self, low, high=None, size=None, dtype=np.int64, endpoint=False):
        if high is None:
            low, high = 0, low
        lo, hi = int(low), int(high) + (1 if endpoint else 0)
        alpha = self._int_alphabet(lo, hi)
        r = self._fill(size, lambda: int(self._pick(alpha, f"integers[{lo},{hi})")), np.int64)
        return np.int64(r) if size is None else r

    def _perm(self, n, label):
        menu = perm_menu(n)
        k = self.ch.choose(len(menu), f"{self.name}.{label}({n})")
        self.log.append((label, tuple(menu[k])))
        return menu[k]

    def permutation(self, x, axis=0):
        if isinstance(x, (int, np.integer)):
            return np.array(self._perm(int(x), "permutation"), dtype=np.int64)
        arr = np.asarray(x) if not hasattr(x, "__getitem__") or isinstance(x, (list, tuple)) else x
        p = self._perm(len(arr), "permutation")
        try:
            return arr[np.array(p, dtype=np.int64)] if len(p) else arr[:0]
        except Exception:
            return np.asarray(arr)[np.array(p, dtype=np.int64)]

    def permuted(self, x, axis=None, out=None):
        arr = np.asarray(x)
        if arr.ndim != 1:
            raise HarnessError("ChoiceRng.permuted supports 1-D input only")
        p = self._perm(len(arr), "permuted")
        return arr[np.array(p, dtype=np.int64)] if len(p) else arr.copy()

    def shuffle(self, x, axis=0):
        p = self._perm(len(x), "shuffle")
        vals = [x[i] for i in p]
        if isinstance(x, np.ndarray):
            x[:] = np.array(vals, dtype=x.dtype) if len(vals) else x
        else:
            for i, v in enumerate(vals):
                x[i] = v

    def choice(self, a, size=None, replace=True, p=None, axis=0, shuffle=True):
        pool = list(range(int(a))) if isinstance(a, (int, np.integer)) else list(a)
        idxs = list(range(len(pool)))
        if p is not None:
            idxs = [i for i in idxs if p[i] > 0]
        if size is None:
            i = idxs[self.ch.choose(len(idxs), f"{self.name}.choice")]
            self.log.append(("choice", i))
            return pool[i]
        shape = self._shape(size)
        n = int(np.prod(shape))
        out = []
        avail = list(idxs)
        for _ in range(n):
            i = avail[self.ch.choose(len(avail), f"{self.name}.choice")]
            out.append(pool[i])
            if not replace:
                avail.remove(i)
        self.log.append(("choice", tuple(out)))
        return np.array(out).reshape(shape)

    def beta(self, a, b, size=None):
        return self._fill(size, lambda: float(self._pick(self.beta_vals, "beta")), np.float64)

    def normal(self, loc=0.0, scale=1.0, size=None):
        return self._fill(size, lambda: float(loc) + float(scale) * float(self._pick(self.z, "normal")), np.float64)

    def standard_normal(self, size=None, dtype=np.float64, out=None):
        r = self._fill(size, lambda: float(self._pick(self.z, "standard_normal")), np.float64)
        return r.astype(dtype) if hasattr(r, "astype") else r

    def multinomial(self, n, pvals, size=None):
        pv = list(np.asarray(pvals, dtype=np.float64).ravel())
        if n != 1 or size is not None:
            raise HarnessError("ChoiceRng.multinomial supports n=1, size=None only")
        idxs = [i for i, q in enumerate(pv) if q > 0]
        i = idxs[self.ch.choose(len(idxs), f"{self.name}.multinomial")]
        self.log.append(("multinomial", i))
        out = np.zeros(len(pv), dtype=np.int64)
        out[i] = 1
        return out


def selftest():
    """API parity with numpy.random.Generator on result types/shapes for every method provided."""
    from .explorer import Chooser
    real = np.random.default_rng(0)
    fake = ChoiceRng(Chooser(()))
    calls = [
        ("random", (), {}), ("random", (3,), {}), ("uniform", (1.0, 2.0), {}), ("uniform", (0.0, 1.0), dict(size=(2,))),
        ("integers", (5,), {}), ("integers", (2, 9), dict(size=(3,))), ("integers", (0, 4), dict(size=1)),
        ("permutation", (4,), {}), ("permutation", (np.arange(3) * 2,), {}), ("permuted", (np.arange(5),), {}),
        ("choice", (4,), {}), ("choice", ([3, 4, 5],), dict(size=2, replace=False)),
        ("beta", (0.8, 0.8), {}), ("beta", (1.0, 1.0), dict(size=3)), ("normal", (0, 1.0), {}),
        ("standard_normal", (), dict(size=(2, 2))), ("multinomial", (1, [0.2, 0.8]), {}),
    ]
    for name, args, kw in calls:
        a = getattr(real, name)(*args, **kw)
        b = getattr(fake, name)(*args, **kw)
        assert np.shape(a) == np.shape(b), (name, np.shape(a), np.shape(b))
        ka = np.asarray(a).dtype.kind
        kb = np.asarray(b).dtype.kind
        assert ka == kb, (name, ka, kb)
    x = np.arange(4)
    fake.shuffle(x)
    assert sorted(x.tolist()) == [0, 1, 2, 3]
