"""python -m kdverif check <ID> --tier quick|thorough | replay <path> | selftest"""
import argparse
import importlib
import json
import os
import sys
import traceback


def main():
    ap = argparse.ArgumentParser(prog="kdverif")
    sub = ap.add_subparsers(dest="cmd", required=True)
    c = sub.add_parser("check")
    c.add_argument("pid")
    c.add_argument("--tier", default="quick", choices=["quick", "thorough"])
    r = sub.add_parser("replay")
    r.add_argument("path")
    sub.add_parser("selftest")
    args = ap.parse_args()

    from . import env
    from .runner import HarnessError, Run
    if args.cmd == "selftest":
        from . import selftest
        sys.exit(selftest.main())
    env.setup()
    if args.cmd == "replay":
        rec = json.load(open(args.path))
        mod = importlib.import_module(f"kdverif.props.{rec['property'].lower()}")
        msg = mod.replay(rec["case"])
        if msg is None:
            print(f"replay: property {rec['property']} holds on this case")
            sys.exit(0)
        print(f"VIOLATION property={rec['property']} replay={os.path.abspath(args.path)}")
        print(f"  signature: {rec['signature']}\n  {msg}")
        sys.exit(1)
    pid = args.pid.upper()
    tier = os.environ.get("VERIF_TIER") or args.tier
    if tier not in ("quick", "thorough"):
        tier = args.tier
    try:
        seed = int(os.environ.get("VERIF_SEED", "0"))
    except ValueError:
        seed = 0
    try:
        mod = importlib.import_module(f"kdverif.props.{pid.lower()}")
        run = Run(pid, tier, seed, mod.LEVEL, mod.RULE)
        mod.run(run)
        code = run.finish()
    except HarnessError as e:
        print(f"ERROR harness error in {pid}: {e}")
        sys.exit(2)
    except Exception:
        print(f"ERROR harness crashed in {pid}:\n{traceback.format_exc()}")
        sys.exit(2)
    sys.stdout.flush()
    os._exit(code)  # skip torch/multiprocessing atexit noise
