"""Completeness check of the E5 interposer: one uninterrupted attempt per fixture runs under `strace -f`; every mutating
syscall between two marker syscalls must be matched by an interposer point of the same kind (counts per kind).

Run as a script (it is the strace'd process):  python -m kdverif.core.crashfs_strace <fmt> <fn> <initial> <reverse>
or call check(...) which spawns strace around that script and compares.
"""
import json
import os
import re
import shutil
import subprocess
import sys
import tempfile


def _inner(fmt, fn, initial, reverse):
    from . import env
    env.setup()
    from ..props import c20
    base = tempfile.mkdtemp(prefix="kdv_c20_strace_")
    try:
        sc = c20.Scenario(base, fmt, None, "parent", fn, 0, reverse == "1")
        state = sc.initial_tree()
        if initial == "incomplete":
            # an interrupted first attempt, so that the traced call also deletes (rmtree)
            sc.restore(state)
            n = len(sc.run(None)["ops"])
            sc.restore(state)
            sc.run(n // 2)
            state = sc.local_tree()
        sc.restore(state)
        os.mkdir(os.path.join(base, "__BEGIN__"))
        r = sc.run(None)
        os.mkdir(os.path.join(base, "__END__"))
        print("OPS " + json.dumps(r["ops"]))
    finally:
        shutil.rmtree(base, ignore_errors=True)


def parse(log):
    """Counts of mutating syscalls between the markers."""
    counts = dict(mkdir=0, unlink=0, rmdir=0, create=0, rename=0, sendfile=0)
    active = False
    for line in log.splitlines():
        if "__BEGIN__" in line:
            active = True
            continue
        if "__END__" in line:
            break
        if not active:
            continue
        failed = " = -1 " in line
        m = re.search(r"\b(mkdirat|mkdir|unlinkat|unlink|rmdir|openat|open|renameat2|renameat|rename|sendfile|copy_file_range)\(", line)
        if not m:
            continue
        call = m.group(1)
        if failed and not call.startswith("mkdir"):
            continue  # a failed unlink/open/... is not a mutation and raises before our point matters
        if call.startswith("mkdir"):
            # the audit event fires before the syscall: a mkdir that fails with EEXIST (makedirs(exist_ok=True)) is a
            # point without a mutation - counted on both sides
            counts["mkdir"] += 1
        elif call == "rmdir" or (call == "unlinkat" and "AT_REMOVEDIR" in line):
            counts["rmdir"] += 1
        elif call.startswith("unlink"):
            counts["unlink"] += 1
        elif call.startswith("rename"):
            counts["rename"] += 1
        elif call in ("sendfile", "copy_file_range"):
            counts["sendfile"] += 1
        elif call.startswith("open"):
            if re.search(r"O_WRONLY|O_RDWR", line) and "kdv_c20" in line:
                counts["create"] += 1
    return counts


def check(fmt="raw", fn="folder", initial="incomplete", reverse=False, timeout=180):
    """-> (status, detail): status in 'ok' | 'skipped' | 'mismatch'."""
    if shutil.which("strace") is None:
        return "skipped", "strace not installed"
    d = tempfile.mkdtemp(prefix="kdv_strace_log_")
    try:
        log = os.path.join(d, "log")
        cmd = ["strace", "-f", "-qq", "-e", "trace=mkdir,mkdirat,unlink,unlinkat,rmdir,open,openat,rename,renameat,renameat2,sendfile,copy_file_range",
               "-o", log, sys.executable, "-m", "kdverif.core.crashfs_strace", fmt, fn, initial, "1" if reverse else "0"]
        try:
            r = subprocess.run(cmd, capture_output=True, text=True, timeout=timeout,
                               cwd=os.path.dirname(os.path.dirname(os.path.dirname(os.path.abspath(__file__)))))
        except subprocess.TimeoutExpired:
            return "skipped", "strace run timed out"
        if r.returncode != 0 or "OPS " not in r.stdout:
            return "skipped", f"strace run failed (rc={r.returncode}): {(r.stderr or r.stdout)[-300:]}"
        ops = json.loads([l for l in r.stdout.splitlines() if l.startswith("OPS ")][0][4:])
        sys_counts = parse(open(log).read())
        pts = dict(mkdir=0, unlink=0, rmdir=0, create=0, rename=0, sendfile=0)
        for o in ops:
            k = o[0]
            if k in ("sendfile", "copy_file_range"):
                pts["sendfile"] += 1
            elif k in pts:
                pts[k] += 1
        if sys_counts != pts:
            return "mismatch", f"syscalls {sys_counts} vs interposer points {pts}"
        return "ok", f"{sum(pts.values())} mutating syscalls, all matched by interposer points: {pts}"
    finally:
        shutil.rmtree(d, ignore_errors=True)


if __name__ == "__main__":
    _inner(*sys.argv[1:5])
