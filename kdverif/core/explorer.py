"""E1 - stateless choice-point explorer (DFS with prefix replay, optional deviation bound)."""
from .runner import HarnessError


class DivergentReplay(HarnessError):
    """Replaying a recorded prefix of answers met other choice points than the execution that recorded it."""


NOT_REPRODUCIBLE = "execution_not_reproducible_with_identical_answers"


class Chooser:
    """choose(n) returns the recorded prefix answer, then 0 (the default answer) at every later point."""

    __slots__ = ("prefix", "trace", "labels")

    def __init__(self, prefix=()):
        self.prefix = prefix
        self.trace = []   # (n, chosen)
        self.labels = []

    def choose(self, n, label=None):
        if n <= 0:
            raise HarnessError(f"choose({n}) at {label}")
        i = len(self.trace)
        if i < len(self.prefix):
            c = self.prefix[i]
            if c >= n:
                raise DivergentReplay(f"divergent replay: prefix answer {c} out of range {n} at point {i} ({label})")
        else:
            c = 0
        self.trace.append((n, c))
        self.labels.append(label)
        return c

    @property
    def choices(self):
        return [c for _, c in self.trace]

    @property
    def deviations(self):
        return sum(1 for _, c in self.trace if c != 0)


def explore(body, max_dev=None, cap=None, diverged=None):
    """Yield (chooser, result) for every execution of body(chooser) within the bounds.
    Every execution (= maximal choice sequence) is produced exactly once. `cap` bounds the number of
    executions; when hit, the generator's .capped attribute equivalent is signalled by a final (None, None).

    A replayed prefix that meets other choice points than the execution that recorded it is a hard error
    (DivergentReplay) - unless the caller passes `diverged`: body builds fresh objects and the harness owns every random
    answer, so a divergence then means the code under test carries state between objects / executions or reads a source
    the harness does not own. In that case one last pair (chooser, diverged(message)) is yielded and the exploration of
    this body ends."""
    stack = [()]
    n_exec = 0
    while stack:
        prefix = stack.pop()
        ch = Chooser(prefix)
        try:
            res = body(ch)
            if len(ch.trace) < len(prefix):
                raise DivergentReplay(f"divergent replay: execution consumed {len(ch.trace)} < prefix {len(prefix)}")
        except DivergentReplay as e:
            if diverged is None:
                raise
            yield ch, diverged(f"{e}; answers {list(prefix)}: two executions on freshly built objects with the same answers "
                               f"asked for different draws (state carried between objects / executions, or a random source "
                               f"outside the injected generator)")
            return
        yield ch, res
        n_exec += 1
        if cap is not None and n_exec >= cap:
            if stack:
                yield None, None
            return
        choices = ch.choices
        devs = sum(1 for c in choices[:len(prefix)] if c != 0)
        if max_dev is not None and devs >= max_dev:
            continue
        # push in reverse so that lower alternatives / earlier points are explored first
        for i in range(len(choices) - 1, len(prefix) - 1, -1):
            n = ch.trace[i][0]
            for alt in range(n - 1, 0, -1):
                stack.append(tuple(choices[:i]) + (alt,))


def selftest():
    # full product of 2x3x2 with a data-dependent third point
    seen = []

    def body(ch):
        a = ch.choose(2)
        b = ch.choose(3)
        c = ch.choose(2) if b == 1 else 0
        return (a, b, c)

    for ch, r in explore(body):
        seen.append(r)
    assert len(seen) == len(set(seen)) == 2 * (2 + 2 + 1) - 2, seen
    exp = {(a, b, c) for a in range(2) for b in range(3) for c in range(2) if b == 1 or c == 0}
    assert set(seen) == exp
    d1 = [r for ch, r in explore(body, max_dev=1)]
    assert set(d1) == {(0, 0, 0), (1, 0, 0), (0, 1, 0), (0, 2, 0), }, d1
    # replay twice -> identical
    for ch, r in explore(body):
        ch2 = Chooser(tuple(ch.choices))
        assert body(ch2) == r
    # divergence is a hard error
    try:
        Chooser((5,)).choose(2)
        raise AssertionError("expected HarnessError")
    except HarnessError:
        pass
