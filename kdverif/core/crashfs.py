"""E5 - crash-point enumeration over a real directory tree.

An *attempt* runs the real copy function in a forked child of the warm process. The child counts file-system
mutation points; immediately before point number `crash_at` it dies with os._exit(77) - real process death: no
finally, no with-exit, no flush of Python-level buffers. The parent collects the list of points passed and, on a
normal return, the function's result.

Points (interposer):
  * sys.addaudithook: open(..., writing mode/flags), os.mkdir, os.remove (unlink, also dir_fd-relative), os.rmdir,
    os.rename  -> fire *before* the operation
  * os.sendfile wrapper (one point before every call; a call transfers at most CHUNK bytes - a legal short transfer -
    so 'destination exists but is partial' states occur)
  * shutil.copyfileobj wrapper (one point before every chunk written; used by zipfile extraction)
  * module-global `open` of the copy modules: one extra point right *after* a writing open returned, so dying there
    leaves the marker file created but empty (its content is still in the Python-level buffer)
Owned environment answers: directory listing order (os.listdir / os.scandir forced to sorted or reverse-sorted).
Metadata-only operations (chmod, utime, xattr) are not crash points: trees are compared by names, kinds and bytes.
"""
import builtins
import hashlib
import json
import os
import shutil
import sys

CHUNK = 32 * 1024
WRITE_FLAGS = os.O_WRONLY | os.O_RDWR | os.O_CREAT | os.O_TRUNC | os.O_APPEND


def tree(root):
    """{relative name: ('d',) | ('f', bytes) | ('l', target)} of everything under root (root itself excluded); None if root
    is absent. Symbolic links are recorded as links (a link is not a copy of the bytes it points to)."""
    if not os.path.lexists(root):
        return None
    out = {}
    for dirpath, dirnames, filenames in os.walk(root):
        rel = os.path.relpath(dirpath, root)
        for d in list(dirnames):
            p = os.path.join(dirpath, d)
            if os.path.islink(p):
                out[os.path.normpath(os.path.join(rel, d))] = ("l", os.readlink(p))
                dirnames.remove(d)
            else:
                out[os.path.normpath(os.path.join(rel, d))] = ("d",)
        for f in filenames:
            p = os.path.join(dirpath, f)
            if os.path.islink(p):
                out[os.path.normpath(os.path.join(rel, f))] = ("l", os.readlink(p))
                continue
            with open(p, "rb") as fh:
                out[os.path.normpath(os.path.join(rel, f))] = ("f", fh.read())
    return out


def tree_digest(t):
    if t is None:
        return "absent"
    h = hashlib.blake2b(digest_size=10)
    for k in sorted(t):
        h.update(k.encode() + b"\0" + t[k][0].encode())
        if t[k][0] == "f":
            h.update(hashlib.blake2b(t[k][1], digest_size=10).digest())
        elif t[k][0] == "l":
            h.update(t[k][1].encode())
    return h.hexdigest()


def tree_summary(t, limit=12):
    if t is None:
        return "<absent>"
    return {k: (v[0] if v[0] == "d" else (len(v[1]) if v[0] == "f" else "->" + v[1])) for k, v in sorted(t.items())[:limit]}


class _Scan:
    """os.scandir result with an owned order (context manager + iterator like the real one)."""

    def __init__(self, entries):
        self._entries = entries

    def __iter__(self):
        return iter(self._entries)

    def __enter__(self):
        return self

    def __exit__(self, *a):
        return False

    def close(self):
        pass


def _child(wfd, fn, kwargs, crash_at, reverse, root, modules):
    ops = []
    armed = [False]
    last_open = [None]

    def rel(p):
        try:
            if isinstance(p, int):
                return f"<fd>"
            p = os.fspath(p)
            if isinstance(p, bytes):
                p = p.decode()
            if os.path.isabs(p) and p.startswith(root):
                return os.path.relpath(p, root)
            return os.path.basename(p) if os.path.isabs(p) else p
        except Exception:
            return "?"

    def point(desc):
        if not armed[0]:
            return
        k = len(ops)
        if crash_at is not None and k == crash_at:
            os.write(wfd, json.dumps(dict(status="crashed", ops=ops, crash_before=desc)).encode())
            os._exit(77)
        ops.append(desc)

    def hook(event, args):
        if not armed[0]:
            return
        if event == "open":
            path, mode, flags = args
            writes = (isinstance(mode, str) and any(c in mode for c in "wax+")) or \
                     (mode is None and isinstance(flags, int) and flags & WRITE_FLAGS)
            if writes and not isinstance(path, int):
                last_open[0] = rel(path)
                point(["create", rel(path)])
        elif event == "os.mkdir":
            point(["mkdir", rel(args[0])])
        elif event == "os.remove":
            point(["unlink", rel(args[0])])
        elif event == "os.rmdir":
            point(["rmdir", rel(args[0])])
        elif event == "os.rename":
            point(["rename", rel(args[0]), rel(args[1])])

    sys.addaudithook(hook)

    real_sendfile = getattr(os, "sendfile", None)
    if real_sendfile is not None:
        def sendfile(out_fd, in_fd, offset, count, *a, **k):
            point(["sendfile", last_open[0]])
            return real_sendfile(out_fd, in_fd, offset, min(count, CHUNK), *a, **k)
        os.sendfile = sendfile
    if hasattr(os, "copy_file_range"):
        real_cfr = os.copy_file_range

        def copy_file_range(src, dst, count, *a, **k):
            point(["copy_file_range", last_open[0]])
            return real_cfr(src, dst, min(count, CHUNK), *a, **k)
        os.copy_file_range = copy_file_range

    def copyfileobj(fsrc, fdst, length=0):
        while True:
            buf = fsrc.read(CHUNK // 2)
            if not buf:
                break
            point(["write_chunk", last_open[0]])
            fdst.write(buf)
    shutil.copyfileobj = copyfileobj

    real_listdir, real_scandir = os.listdir, os.scandir

    def listdir(path="."):
        return sorted(real_listdir(path), reverse=reverse)

    def scandir(path="."):
        with real_scandir(path) as it:
            entries = list(it)
        return _Scan(sorted(entries, key=lambda e: e.name, reverse=reverse))

    os.listdir, os.scandir = listdir, scandir

    real_open = builtins.open

    def open_proxy(file, mode="r", *a, **k):
        f = real_open(file, mode, *a, **k)
        if armed[0] and any(c in mode for c in "wax+"):
            point(["opened_unflushed", rel(file)])
        return f

    for m in modules:
        m.open = open_proxy

    armed[0] = True
    try:
        res = fn(**kwargs)
        armed[0] = False
        out = dict(status="returned", ops=ops, result={k: getattr(res, k) for k in getattr(res, "__dataclass_fields__", {})})
    except BaseException as e:  # noqa
        armed[0] = False
        out = dict(status="error", ops=ops, error=f"{type(e).__name__}: {e}")
    os.write(wfd, json.dumps(out).encode())
    os._exit(0)


def attempt(fn, kwargs, crash_at, reverse, root, modules, restore=None):
    """Run one attempt in a forked child. -> dict(status, ops, result | crash_before | error).
    A child that is killed from outside (SIGKILL by the kernel under memory pressure) before it could report is not an
    observation: the state is restored (callback) and the attempt repeated, at most twice."""
    for retry in range(3):
        out = _attempt_once(fn, kwargs, crash_at, reverse, root, modules)
        if not (out["status"] == "harness_error" and out.get("exit", 0) < 0 and restore is not None):
            return out
        restore()
    return out


def _attempt_once(fn, kwargs, crash_at, reverse, root, modules):
    rfd, wfd = os.pipe()
    pid = os.fork()
    if pid == 0:
        os.close(rfd)
        try:
            _child(wfd, fn, kwargs, crash_at, reverse, root, modules)
        finally:
            os._exit(3)
    os.close(wfd)
    chunks = []
    while True:
        b = os.read(rfd, 1 << 16)
        if not b:
            break
        chunks.append(b)
    os.close(rfd)
    _, status = os.waitpid(pid, 0)
    code = os.waitstatus_to_exitcode(status)
    data = b"".join(chunks)
    if not data:
        return dict(status="harness_error", ops=[], error=f"child exit {code} without report", exit=code)
    out = json.loads(data.decode())
    out["exit"] = code
    return out
