"""TorchProxy - stands in for the module-global `torch` of a sampler/collator module: randperm / multinomial / randint /
rand become choice points of the explorer, everything else is forwarded to the real torch."""
import torch as _torch

from .choice_rng import perm_menu


class TorchProxy:
    def __init__(self, chooser, rand_alphabet=(0.0, 0.5, 1 - 1e-9)):
        self._ch = chooser
        self._rand = rand_alphabet
        self.log = []

    def __getattr__(self, name):
        return getattr(_torch, name)

    def randperm(self, n, generator=None, **kw):
        menu = perm_menu(int(n))
        k = self._ch.choose(len(menu), f"torch.randperm({n})")
        self.log.append(("randperm", tuple(menu[k])))
        return _torch.tensor(menu[k], dtype=_torch.long)

    def multinomial(self, weights, num_samples, replacement=False, generator=None):
        w = [float(x) for x in weights]
        avail = [i for i, x in enumerate(w) if x > 0]
        if not replacement and num_samples > len(avail):
            raise RuntimeError("invalid multinomial distribution (with replacement=False, not enough non-negative category to sample)")
        out = []
        for _ in range(int(num_samples)):
            i = avail[self._ch.choose(len(avail), "torch.multinomial")]
            out.append(i)
            if not replacement:
                avail.remove(i)
        self.log.append(("multinomial", tuple(out)))
        return _torch.tensor(out, dtype=_torch.long)

    def randint(self, *args, generator=None, **kw):
        if len(args) == 2 and not isinstance(args[1], int):
            low, high, size = 0, args[0], args[1]
        elif len(args) == 3:
            low, high, size = args
        else:
            low, high, size = kw.get("low", 0), kw.get("high", args[0] if args else None), kw.get("size")
        n = 1
        for s in size:
            n *= s
        vals = [low + self._ch.choose(high - low, f"torch.randint[{low},{high})") for _ in range(n)]
        return _torch.tensor(vals, dtype=kw.get("dtype", _torch.long)).view(*size)

    def rand(self, *size, generator=None, **kw):
        if len(size) == 1 and isinstance(size[0], (tuple, list)):
            size = tuple(size[0])
        n = 1
        for s in size:
            n *= s
        vals = [self._rand[self._ch.choose(len(self._rand), "torch.rand")] for _ in range(n)]
        return _torch.tensor(vals, dtype=_torch.float32).view(*size)
