"""Run bookkeeping: counters, violations, known findings, evidence, replays, fork pool.

Exit codes: 0 held on everything explored; 1 + VIOLATION line(s); 2 harness error.
"""
import hashlib
import json
import multiprocessing as mp
import os
import sys
import time
import traceback

from . import env

EVIDENCE_DIR = os.path.join(env.VERIF, "evidence")
REPLAY_DIR = os.path.join(env.VERIF, "replays")
KNOWN_FILE = os.path.join(env.VERIF, "known_findings.json")

MAX_SAMPLES = 6
MAX_VIOLATION_LINES = 12


class HarnessError(Exception):
    """The harness itself misbehaved (divergent replay, unowned nondeterminism...). Never a violation."""


def digest(obj) -> int:
    """Stable 64-bit digest of a JSON-able / repr-able object (PYTHONHASHSEED independent)."""
    if not isinstance(obj, (bytes, bytearray)):
        obj = repr(obj).encode()
    return int.from_bytes(hashlib.blake2b(obj, digest_size=8).digest(), "big")


def jsonable(x):
    import numpy as np
    try:
        import torch
    except Exception:  # pragma: no cover
        torch = None
    if isinstance(x, dict):
        return {str(k): jsonable(v) for k, v in x.items()}
    if isinstance(x, (list, tuple, set, frozenset)):
        return [jsonable(v) for v in x]
    if torch is not None and torch.is_tensor(x):
        return jsonable(x.tolist())
    if isinstance(x, np.ndarray):
        return jsonable(x.tolist())
    if isinstance(x, (np.integer,)):
        return int(x)
    if isinstance(x, (np.floating,)):
        return float(x)
    if isinstance(x, (str, int, float, bool)) or x is None:
        return x
    return repr(x)


def _size(case):
    return len(json.dumps(case, sort_keys=True))


class Partial:
    """What one worker task (or the parent) measured. Mergeable."""

    def __init__(self):
        self.evaluations = 0
        self.classes = set()      # digests of distinct non-trivial observation classes
        self.states = set()       # digests of distinct model states
        self.transitions = 0
        self.traces = 0           # model traces replayed against the implementation
        self.samples = []
        self.counters = {}
        self.violations = {}      # signature -> (case, message)

    def count(self, key, n=1):
        self.counters[key] = self.counters.get(key, 0) + n

    def observe(self, obj):
        self.classes.add(obj if isinstance(obj, int) else digest(obj))

    def state(self, obj):
        self.states.add(obj if isinstance(obj, int) else digest(obj))

    def sample(self, obj):
        if len(self.samples) < MAX_SAMPLES:
            self.samples.append(jsonable(obj))

    def violation(self, signature, case, message):
        """Keep the first (enumeration is smallest-first, so minimal) case per signature."""
        case = jsonable(case)
        old = self.violations.get(signature)
        if old is None or _size(case) < _size(old[0]):
            self.violations[signature] = (case, str(message)[:2000])

    def merge(self, other):
        self.evaluations += other.evaluations
        self.classes |= other.classes
        self.states |= other.states
        self.transitions += other.transitions
        self.traces += other.traces
        for s in other.samples:
            if len(self.samples) < MAX_SAMPLES:
                self.samples.append(s)
        for k, v in other.counters.items():
            self.counters[k] = self.counters.get(k, 0) + v
        for sig, cm in other.violations.items():
            old = self.violations.get(sig)
            if old is None or _size(cm[0]) < _size(old[0]):
                self.violations[sig] = cm


def _load_known():
    if not os.path.exists(KNOWN_FILE):
        return []
    with open(KNOWN_FILE) as f:
        return json.load(f)


class Run(Partial):
    def __init__(self, pid, tier, seed, level, rule):
        super().__init__()
        self.pid = pid
        self.tier = tier
        self.seed = seed
        self.level = level
        self.rule = rule
        self.assumptions = []
        self.extra = {}
        self.exhaustive = True
        self.t0 = time.time()

    # ---- parallel map over tasks with a fork pool (children inherit the warm imports)
    def pmap(self, func, tasks, nproc=None, chunksize=1):
        tasks = list(tasks)
        if nproc is None:
            nproc = int(os.environ.get("KDVERIF_NPROC", "0")) or min(16, os.cpu_count() or 1)
        if nproc <= 1 or len(tasks) <= 1:
            for t in tasks:
                self.merge(func(t))
            return
        import concurrent.futures as cf
        from concurrent.futures.process import BrokenProcessPool
        ctx = mp.get_context("fork")
        g = _guarded(func)
        with cf.ProcessPoolExecutor(max_workers=min(nproc, len(tasks)), mp_context=ctx, initializer=_init_worker) as ex:
            futs = [ex.submit(g, t) for t in tasks]
            try:
                for f in cf.as_completed(futs):
                    part = f.result()
                    if isinstance(part, _WorkerError):
                        for o in futs:
                            o.cancel()
                        raise HarnessError(part.text)
                    self.merge(part)
            except BrokenProcessPool:
                raise HarnessError("a worker process died (killed / out of memory) - the exploration is incomplete")

    def finish(self):
        known = [k for k in _load_known() if k.get("property") == self.pid and k.get("status") == "known"]
        known_keys = {k["key"]: k for k in known}
        new, hit = [], []
        for sig, (case, msg) in sorted(self.violations.items()):
            if sig in known_keys:
                hit.append((sig, known_keys[sig]))
            else:
                new.append((sig, case, msg))
        for sig, k in hit:
            print(f"KNOWN-FINDING: property={self.pid} {k.get('what', sig)} [key={sig}]")
        import shutil
        shutil.rmtree(os.path.join(REPLAY_DIR, self.pid), ignore_errors=True)  # replays of earlier runs are stale
        paths = []
        for sig, case, msg in new:
            paths.append(write_replay(self.pid, sig, case, msg))
        for p, (sig, case, msg) in list(zip(paths, new))[:MAX_VIOLATION_LINES]:
            print(f"VIOLATION property={self.pid} replay={p}")
            print(f"  signature: {sig}\n  {msg.splitlines()[0] if msg else ''}")
        if len(new) > MAX_VIOLATION_LINES:
            print(f"  ... and {len(new) - MAX_VIOLATION_LINES} more distinct violation signatures (replays written)")
        self.write_evidence(len(new), [h[0] for h in hit])
        wall = time.time() - self.t0
        print(f"{self.pid} tier={self.tier} seed={self.seed} evaluations={self.evaluations} "
              f"distinct={len(self.classes)} states={len(self.states)} transitions={self.transitions} "
              f"traces={self.traces} violations={len(new)} known={len(hit)} wall={wall:.1f}s")
        return 1 if new else 0

    def write_evidence(self, n_viol, known_hit):
        cov = {
            "evaluations": int(self.evaluations),
            "distinct_nontrivial": len(self.classes),
            "rule": self.rule,
            "samples": self.samples[:MAX_SAMPLES],
            "exhaustive": bool(self.exhaustive),
            "counters": {k: self.counters[k] for k in sorted(self.counters)},
        }
        if self.level == "model_checking":
            cov["states"] = len(self.states)
            cov["transitions"] = int(self.transitions)
            cov["traces_validated_against_impl"] = int(self.traces)
        cov.update(self.extra)
        ev = {
            "property_id": self.pid,
            "tier": self.tier,
            "seed": int(self.seed),
            "level": self.level,
            "coverage": cov,
            "assumptions": self.assumptions,
            "wall_s": round(time.time() - self.t0, 2),
            "violations": int(n_viol),
            "known_findings_hit": known_hit,
            "repo": env.REPO,
        }
        os.makedirs(EVIDENCE_DIR, exist_ok=True)
        path = os.path.join(EVIDENCE_DIR, f"{self.pid}.json")
        tmp = path + ".tmp"
        with open(tmp, "w") as f:
            json.dump(ev, f, indent=1, sort_keys=True)
        os.replace(tmp, path)


WORKER_DATA_LIMIT = 10 * 1024 ** 3


def _init_worker():
    """Runaway allocations inside the library under test must surface as MemoryError in the worker (and from there as a
    violation or harness error) instead of getting the worker killed by the OOM killer."""
    try:
        import resource
        resource.setrlimit(resource.RLIMIT_DATA, (WORKER_DATA_LIMIT, WORKER_DATA_LIMIT))
    except Exception:
        pass


class _WorkerError:
    def __init__(self, text):
        self.text = text


class _guarded:
    def __init__(self, func):
        self.func = func

    def __call__(self, task):
        try:
            return self.func(task)
        except BaseException:  # noqa
            return _WorkerError(f"task {task!r}\n{traceback.format_exc()}")


def write_replay(pid, sig, case, msg):
    d = os.path.join(REPLAY_DIR, pid)
    os.makedirs(d, exist_ok=True)
    h = hashlib.blake2b(sig.encode(), digest_size=6).hexdigest()
    path = os.path.join(d, f"{h}.json")
    with open(path, "w") as f:
        json.dump({"property": pid, "signature": sig, "case": case, "message": msg}, f, indent=1, sort_keys=True)
    with open(os.path.join(d, f"{h}.py"), "w") as f:
        f.write(
            "#!/venv/bin/python\n"
            f"\"\"\"Replays one recorded counterexample of {pid} with plain library calls (no explorer).\n"
            f"signature: {sig}\n\"\"\"\n"
            "import json, os, sys\n"
            f"sys.path.insert(0, {env.VERIF!r})\n"
            "from kdverif.core import env; env.setup()\n"
            f"from kdverif.props import {pid.lower()} as prop\n"
            f"rec = json.load(open(os.path.splitext(os.path.abspath(__file__))[0] + '.json'))\n"
            "msg = prop.replay(rec['case'])\n"
            "assert msg is None, msg\n"
            "print('property holds on this case')\n"
        )
    return path
