"""setup_cmd: nothing to build (pure Python); checks the tool-chain the checks rely on."""
import sys
import time


def main():
    t0 = time.time()
    from . import env
    env.setup()
    from . import explorer
    explorer.selftest()
    try:
        from . import choice_rng
        choice_rng.selftest()
    except ImportError:
        pass
    print(f"selftest ok ({time.time() - t0:.1f}s), library from {env.REPO}")
    return 0
