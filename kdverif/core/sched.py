"""E4 - controlled scheduler: real threads, one runs at a time, scheduling points only at SchedDict operations.

A Manager dict gives separate processes exactly this atomicity: each proxy call (contains / get / set / clear) is one
request served atomically by the manager process; everything else a reader does is process-private. SchedDict is an
in-process dict that (a) yields to the scheduler before each operation and (b) pickles on store / unpickles on load, as
the proxy does, so no aliasing through the cache is invented by the harness.
"""
import os
import pickle
import threading

from .runner import HarnessError


_PROXIES = {}


def _lookup_proxy(key):
    return _PROXIES[key]


class SchedDict:
    def __init__(self):
        self._d = {}
        self.sched = None
        self.ops = []

    def _point(self, op):
        if self.sched is not None:
            self.sched.point(op)
        self.ops.append(op)

    def __contains__(self, k):
        self._point(("contains", k))
        return k in self._d

    def __getitem__(self, k):
        self._point(("get", k))
        return pickle.loads(self._d[k])

    def __setitem__(self, k, v):
        self._point(("set", k))
        self._d[k] = pickle.dumps(v)

    def clear(self):
        self._point(("clear",))
        self._d.clear()

    def get(self, k, default=None):
        self._point(("get", k))
        return pickle.loads(self._d[k]) if k in self._d else default

    def pop(self, k, *default):
        self._point(("pop", k))
        if k in self._d:
            return pickle.loads(self._d.pop(k))
        if default:
            return default[0]
        raise KeyError(k)

    def setdefault(self, k, v):
        self._point(("setdefault", k))
        if k not in self._d:
            self._d[k] = pickle.dumps(v)
        return pickle.loads(self._d[k])

    def __len__(self):
        self._point(("len",))
        return len(self._d)

    def keys(self):
        self._point(("keys",))
        return list(self._d.keys())

    def snapshot(self):
        return {k: pickle.loads(v) for k, v in self._d.items()}

    # a proxy to a server-side dict: copying the object that holds it (fork) still refers to the same dict
    def __deepcopy__(self, memo):
        return self

    def __copy__(self):
        return self

    def __reduce__(self):
        _PROXIES[id(self)] = self
        return (_lookup_proxy, (id(self),))


class _Workers:
    """Persistent worker threads (one set per process): creating fresh threads for every schedule is the dominant cost
    (clone + stack mmap), and it scales badly when many explorer processes do it at once."""
    pid = None
    threads = []
    queues = []

    @classmethod
    def get(cls, n):
        import queue
        if cls.pid != os.getpid():
            cls.pid, cls.threads, cls.queues = os.getpid(), [], []
        while len(cls.threads) < n:
            q = queue.SimpleQueue()
            i = len(cls.threads)

            def loop(q=q):
                while True:
                    job = q.get()
                    job()

            th = threading.Thread(target=loop, name=f"T{i}", daemon=True)
            th.start()
            cls.threads.append(th)
            cls.queues.append(q)
        return cls.queues[:n]


class Scheduler:
    """Runs thread bodies under a schedule chosen by `chooser`; preemptions (switching away from a thread that could
    continue) are bounded by `bound` (None = unbounded)."""

    def __init__(self, chooser, bound=None):
        self.ch = chooser
        self.bound = bound
        self.cv = threading.Condition()
        self.state = {}      # tid -> 'waiting' | 'running' | 'done'
        self.turn = None
        self.preemptions = 0
        self.trace = []      # (tid, op)
        self.errors = {}
        self.pending_op = {}

    def point(self, op):
        tid = threading.current_thread().name
        if tid not in self.state or self.state.get(tid) == "done":
            # not one of the scheduled readers (e.g. a finalizer running in the driver thread, or a late call after the
            # reader's body returned): the operation happens right here, it is not a scheduling point
            self.trace.append((f"<{tid}>", op))
            return
        with self.cv:
            self.state[tid] = "waiting"
            self.pending_op[tid] = op
            self.turn = None
            self.cv.notify_all()
            while self.turn != tid:
                if not self.cv.wait(timeout=20):
                    raise HarnessError(f"scheduler: thread {tid} starved at {op}")
            self.state[tid] = "running"
            self.trace.append((tid, op))

    def _wrap(self, tid, fn):
        def run():
            try:
                self.point(("start",))
                fn()
            except BaseException as e:  # noqa
                self.errors[tid] = e
            finally:
                with self.cv:
                    self.state[tid] = "done"
                    self.turn = None
                    self.cv.notify_all()
        return run

    def run(self, bodies):
        """bodies: list of callables. Returns when all are done."""
        tids = [f"T{i}" for i in range(len(bodies))]
        queues = _Workers.get(len(bodies))
        for t in tids:
            self.state[t] = "running"
        for q, t, b in zip(queues, tids, bodies):
            q.put(self._wrap(t, b))
        last = None
        while True:
            with self.cv:
                while self.turn is not None or any(s == "running" for s in self.state.values()):
                    if not self.cv.wait(timeout=20):
                        raise HarnessError(f"scheduler: no progress, states {self.state}")
                enabled = [t for t in tids if self.state[t] == "waiting"]
                if not enabled:
                    if all(self.state[t] == "done" for t in tids):
                        break
                    raise HarnessError(f"deadlock: {self.state}")
                # canonical order: the thread that ran last first (continuing it is no preemption), then ascending ids
                if last in enabled:
                    order = [last] + [t for t in enabled if t != last]
                    if self.bound is not None and self.preemptions >= self.bound:
                        order = [last]
                else:
                    order = enabled
                k = self.ch.choose(len(order), "schedule")
                pick = order[k]
                if last in enabled and pick != last:
                    self.preemptions += 1
                last = pick
                self.turn = pick
                self.state[pick] = "running"
                self.cv.notify_all()
        return self.trace
