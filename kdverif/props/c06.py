"""C06 - resuming the interleaved scheduler yields the suffix of the uninterrupted run (E3, two runs per configuration)."""
from ..core.runner import Partial
from ..models import interleaved_ref as ref
from . import interleaved_common as ic

LEVEL = "model_checking"
RULE = ("C04/C05 geometries x budgets (plus long epoch budgets for small geometries) x config sets x every epoch-boundary checkpoint k>=1 strictly before the budget, "
        "given as start_epoch / start_update / start_sample (values from the model's counters); the resumed real "
        "generator is stepped against the suffix of the uninterrupted reference trace; constructor rejections "
        "(NotImplementedError/AssertionError) are counted separately; distinct = distinct accepted suffix streams")


def bounds(tier):
    if tier == "quick":
        return dict(maxN=7, pair_menu=8, deepN=5, deep_epochs=(5, 7))
    return dict(maxN=10, pair_menu=22, deepN=8, deep_epochs=(5, 7, 9, 13))


def config_sets(b, seed):
    menu = ic.config_menu_small()
    sets = [()] + [(c,) for c in menu]
    sub = ic.pick(menu, b["pair_menu"], seed)
    sets += [(x, y) for x in sub for y in sub]
    return sets


def signature(kind, geo, bud, cfgs, form, culprit):
    N, B, dl, dlbs = geo
    who = ""
    if culprit is not None and culprit < len(cfgs):
        who = f"|config_intervals={''.join(k for k, v in zip('eus', cfgs[culprit][:3]) if v is not None)}"
    return (f"C06:{kind}|via={form}|budget={bud[0]}|drop_last={dl}|dlbs={'set' if dlbs is not None else 'none'}"
            f"|short_last_batch={(N % B != 0) and not dl}{who}")


def check_one(geo, bud, cfgs, k, form, model=None, marks=None):
    """Returns (status, kind, detail, transitions, suffix). status in 'ok' | 'rejected' | 'violation' | 'n/a'."""
    if model is None:
        model, marks = ref.trace(geo, bud, cfgs, geo[0] * ic.MAIN_DLEN_FACTOR)
    if k not in marks or marks[k][0] >= len(model):
        return "n/a", None, None, 0, None
    pos, u, s = marks[k]
    start = {"start_epoch": ("start_epoch", k), "start_update": ("start_update", u), "start_sample": ("start_sample", s)}[form]
    suffix = model[pos:]
    horizon = len(suffix) + ic.side_max_len(cfgs) + geo[1] + 2
    try:
        smp, log = ic.build(geo, bud, cfgs, start=start)
    except (NotImplementedError, AssertionError):
        return "rejected", None, None, 0, None
    except Exception as e:
        return "violation", f"exception:{type(e).__name__}", dict(error=repr(e)[:300]), 0, None
    try:
        impl, overrun = ic.impl_events(smp, log, horizon)
    except Exception as e:
        return "violation", f"exception:{type(e).__name__}", dict(error=repr(e)[:300]), 0, None
    kind = ic.classify(suffix, impl, overrun)
    if kind is None:
        return "ok", None, None, len(impl), suffix
    d = ic.first_diff(suffix, impl)
    ev = [e for e in (suffix[d] if d < len(suffix) else None, impl[d] if d < len(impl) else None) if e and e[0] == 'S']
    detail = dict(first_diff_at=d, model_suffix=suffix[max(0, d - 2):d + 3], impl=impl[max(0, d - 2):d + 3],
                  suffix_len=len(suffix), impl_len=len(impl), start=start, culprit=ev[0][1] if ev else None)
    return "violation", kind, detail, len(impl), None


def task(args):
    geo, tier, seed = args
    b = bounds(tier)
    p = Partial()
    work = [(bud, cfgs) for bud in ic.budgets(geo) for cfgs in config_sets(b, seed)]
    if geo[0] <= b["deepN"]:
        # long runs of small geometries: late epoch boundaries (arithmetic coincidences of len, batch_size and epoch
        # number only show up after several epochs), with no or one side config
        singles = [s for s in config_sets(b, seed) if len(s) <= 1]
        work += [(('epochs', e), cfgs) for e in b["deep_epochs"] for cfgs in singles]
    for bud, cfgs in work:
        if True:
            model, marks = ref.trace(geo, bud, cfgs, geo[0] * ic.MAIN_DLEN_FACTOR)
            for k in sorted(marks):
                if marks[k][0] >= len(model):
                    continue
                for form in ("start_epoch", "start_update", "start_sample"):
                    st, kind, detail, ntr, suffix = check_one(geo, bud, cfgs, k, form, model, marks)
                    p.evaluations += 1
                    p.count(f"{form}:{st}")
                    if st == "rejected":
                        continue
                    p.traces += 1
                    p.transitions += ntr
                    if st == "violation":
                        p.violation(signature(kind, geo, bud, cfgs, form, detail.get("culprit")),
                                    dict(geo=geo, bud=bud, cfgs=cfgs, k=k, form=form), f"{kind}: {detail}")
                    else:
                        p.observe((geo, tuple(suffix)))
                        p.state((geo, bud[0], k, marks[k][1], marks[k][2]))
    p.sample(dict(geo=geo, bud=('epochs', 3), cfgs=config_sets(b, seed)[5], k=1, form="start_epoch"))
    return p


def large_task(args):
    """Many updates per epoch (float arithmetic on the counters is exact only for small numbers): every updates-per-epoch
    value in a range, batch size 1 or 2, an epochs budget of 3, no or one simple side config, checkpoints at epochs 1 and 2."""
    upes, tier = args
    p = Partial()
    cfg_sets = [(), ((1, None, None, 1, 1, None),), ((None, 7, None, 2, 2, None),)]
    for upe in upes:
        for B, dl in ((1, True), (2, True), (2, False)):
            geo = (upe * B, B, dl, None)
            bud = ('epochs', 3)
            for cfgs in cfg_sets:
                model, marks = ref.trace(geo, bud, cfgs, geo[0] * ic.MAIN_DLEN_FACTOR)
                for k in (1, 2):
                    for form in ("start_epoch", "start_update", "start_sample"):
                        st, kind, detail, ntr, suffix = check_one(geo, bud, cfgs, k, form, model, marks)
                        p.evaluations += 1
                        p.count(f"{form}:{st}")
                        if st == "rejected" or st == "n/a":
                            continue
                        p.traces += 1
                        p.transitions += ntr
                        if st == "violation":
                            p.violation(signature(kind, geo, bud, cfgs, form, detail.get("culprit")) + "|many_updates_per_epoch",
                                        dict(geo=geo, bud=bud, cfgs=cfgs, k=k, form=form), f"{kind}: {detail}")
                        else:
                            p.state((geo, bud[0], k, marks[k][1], marks[k][2]))
    p.observe(("large", tuple(upes)))
    return p


def run(run):
    b = bounds(run.tier)
    geos = sorted(ic.geometries(b["maxN"]), key=lambda g: -g[0])
    run.pmap(task, [(g, run.tier, run.seed) for g in geos])
    hi = 130 if run.tier == "quick" else 400
    upes = list(range(8, hi + 1))
    run.pmap(large_task, [(upes[i:i + 8], run.tier) for i in range(0, len(upes), 8)])
    run.extra.update(many_updates_per_epoch=f"8..{hi} (batch size 1 / 2, epochs budget 3, checkpoints 1 and 2, all three forms)")
    run.extra.update(bounds=dict(N=f"1..{b['maxN']}", config_sets=len(config_sets(b, run.seed)),
                                 deep_epoch_budgets=f"{list(b['deep_epochs'])} for N<={b['deepN']} (no / one side config)"),
                     geometries=len(geos))
    run.assumptions += [
        "an explicit NotImplementedError / AssertionError from the constructor is an acceptable answer (counted in counters)",
        "checkpoints are epoch boundaries strictly before the budget, values taken from the reference model's counters",
    ]


def replay(case):
    st, kind, detail, _, _ = check_one(tuple(case["geo"]), tuple(case["bud"]), tuple(tuple(c) for c in case["cfgs"]),
                                       int(case["k"]), case["form"])
    return f"{kind}: {detail}" if st == "violation" else None
