"""C01 - mode string decides exactly which items a sample has, and in which order (E1 product + access histories)."""
import itertools

from ..core.runner import Partial

LEVEL = "exploration"
RULE = ("all mode strings of length <= M over {x, class, a, b, index, ctx.tca, ctx.kb} (ctx.<k> only after the item recording k) "
        "x return_ctx x wrapper stacks (root, identity wrappers, fused-operation wrappers with groups of 2 and 3 members, two "
        "disjoint groups, nested fused wrappers, TorchWrapper, shipped KDMixWrapper / XTransformWrapper / SemsegTransformWrapper) "
        "x dataset sizes x every int index in [-n, n); slices / index lists / iter / len against list semantics; all access "
        "sequences of length <= 3 on one object (history independence), and accesses interleaved with a sibling stack of the same kind "
        "over other data; distinct = distinct (stack, mode, return_ctx, n, result) "
        "observations")

ITEMS = ("x", "class", "a", "b")
_LIB = {}


def lib():
    if _LIB:
        return _LIB
    import numpy as np
    import torch
    from torch.utils.data import Dataset
    from kappadata.datasets.kd_dataset import KDDataset
    from kappadata.datasets.kd_wrapper import KDWrapper
    from kappadata.wrappers.mode_wrapper import ModeWrapper
    from kappadata.wrappers.torch_wrapper import TorchWrapper

    class Root(KDDataset):
        def __init__(self, n):
            super().__init__()
            self.n = n

        def __len__(self):
            return self.n

        def _load(self, item, idx, ctx):
            assert isinstance(idx, int) and 0 <= idx < self.n, f"root received index {idx!r}"
            if ctx is not None:
                ctx[f"seen_{item}"] = idx
                ctx[f"parity{idx % 2}"] = idx  # different samples record different key sets (stale entries visible)
                if item == "a":
                    ctx["tca"] = f"tca{idx}"
                    ctx["xa2"] = f"xa2{idx}"
                if item == "b":
                    ctx["kb"] = f"kb{idx}"
            return f"{item}{idx}"

        def getitem_x(self, idx, ctx=None):
            return self._load("x", idx, ctx)

        def getitem_class(self, idx, ctx=None):
            return self._load("class", idx, ctx)

        def getitem_a(self, idx, ctx=None):
            return self._load("a", idx, ctx)

        def getitem_b(self, idx, ctx=None):
            return self._load("b", idx, ctx)

    class RootRev(Root):
        """a sibling dataset with other content at every position (sample idx holds what Root has at n-1-idx)"""

        def _load(self, item, idx, ctx):
            return "sibling:" + super()._load(item, self.n - 1 - idx, ctx)

    class IdW(KDWrapper):
        pass

    def make_fused(groups, forward=()):
        ns = {}

        def fused_operations(self):
            return self.dataset.fused_operations + [list(g) for g in groups]

        ns["fused_operations"] = property(fused_operations)

        def fresh(self):
            self.__dict__["counter"] = self.__dict__.get("counter", 0) + 1
            return self.__dict__["counter"]

        ns["fresh"] = fresh
        for it in ITEMS:
            def single(self, idx, ctx=None, _it=it):
                return (getattr(self.dataset, "getitem_" + _it)(idx, ctx), self.fresh())
            ns["getitem_" + it] = single
        for g in groups:
            def joint(self, idx, ctx=None, _g=tuple(g)):
                nonce = self.fresh()
                return tuple((getattr(self.dataset, "getitem_" + m)(idx, ctx), nonce) for m in _g)
            ns["getitem_" + "".join(g)] = joint
        for jn in forward:
            def fwd(self, idx, ctx=None, _jn=jn):
                return getattr(self.dataset, "getitem_" + _jn)(idx, ctx)
            ns["getitem_" + jn] = fwd
        return type("Fused_" + "_".join("".join(g) for g in groups), (KDWrapper,), ns)

    class PlainTorch(Dataset):
        def __init__(self, n):
            self.n = n

        def __len__(self):
            return self.n

        def __getitem__(self, i):
            assert 0 <= i < self.n
            return (f"x{i}", f"class{i}")

    class PlainTorch1(Dataset):
        """a torch dataset with ONE field per sample, returned as a 1-tuple (like TensorDataset(x))"""

        def __init__(self, n, sibling=False):
            self.n, self.sibling = n, sibling

        def __len__(self):
            return self.n

        def __getitem__(self, i):
            assert 0 <= i < self.n
            return (f"sibling:x{self.n - 1 - i}",) if self.sibling else (f"x{i}",)

    _LIB.update(PlainTorch1=PlainTorch1)

    class PlainTorchRev(PlainTorch):
        def __getitem__(self, i):
            assert 0 <= i < self.n
            return (f"sibling:x{self.n - 1 - i}", f"sibling:class{self.n - 1 - i}")

    _LIB.update(RootRev=RootRev, PlainTorchRev=PlainTorchRev)
    _LIB.update(np=np, torch=torch, Root=Root, IdW=IdW, make_fused=make_fused, ModeWrapper=ModeWrapper,
                TorchWrapper=TorchWrapper, PlainTorch=PlainTorch, KDDataset=KDDataset)
    return _LIB


# stack name -> (builder(n) -> dataset, groups list, available items)
def stack_table(sibling=False):
    L = lib()
    Root, IdW, mf = L["RootRev" if sibling else "Root"], L["IdW"], L["make_fused"]
    PlainTorch = L["PlainTorchRev" if sibling else "PlainTorch"]
    F_xc = mf([("x", "class")])
    F_ab = mf([("a", "b")])
    F_ba = mf([("b", "a")])
    F_xac = mf([("x", "a", "class")])
    F_two = mf([("x", "class"), ("a", "b")])
    F_outer_ab = mf([("a", "b")], forward=("xclass",))
    return {
        "root": (lambda n: Root(n), [], ITEMS),
        "id>root": (lambda n: IdW(Root(n)), [], ITEMS),
        "id>id>root": (lambda n: IdW(IdW(Root(n))), [], ITEMS),
        "F[xclass]>root": (lambda n: F_xc(Root(n)), [("x", "class")], ITEMS),
        "F[ab]>root": (lambda n: F_ab(Root(n)), [("a", "b")], ITEMS),
        "F[ba]>id>root": (lambda n: F_ba(IdW(Root(n))), [("b", "a")], ITEMS),
        "F[xaclass]>root": (lambda n: F_xac(Root(n)), [("x", "a", "class")], ITEMS),
        "F[xclass,ab]>root": (lambda n: F_two(Root(n)), [("x", "class"), ("a", "b")], ITEMS),
        "F[ab]>F[xclass]>root": (lambda n: F_outer_ab(F_xc(Root(n))), [("x", "class"), ("a", "b")], ITEMS),
        "torch[x class]": (lambda n: L["TorchWrapper"](PlainTorch(n), mode="x class"), [], ("x", "class")),
        "torch[x]": (lambda n: L["TorchWrapper"](L["PlainTorch1"](n, sibling), mode="x"), [], ("x",)),
    }


def modes(maxlen, items):
    alpha = list(items) + ["index"] + (["ctx.tca", "ctx.xa2"] if "a" in items else []) + (["ctx.kb"] if "b" in items else [])
    for L_ in range(1, maxlen + 1):
        for seq in itertools.product(alpha, repeat=L_):
            ok = True
            for p, it in enumerate(seq):
                if it in ("ctx.tca", "ctx.xa2") and "a" not in seq[:p]:
                    ok = False
                if it == "ctx.kb" and "b" not in seq[:p]:
                    ok = False
            if ok:
                yield seq


def strip(v):
    while isinstance(v, tuple) and len(v) == 2 and isinstance(v[1], int):
        v = v[0]
    return v


def nonce(v):
    return v[1] if isinstance(v, tuple) and len(v) == 2 and isinstance(v[1], int) else None


def expected_items(seq, i):
    out = []
    for it in seq:
        if it == "index":
            out.append(i)
        elif it.startswith("ctx."):
            out.append(f"{it[4:]}{i}")
        else:
            out.append(f"{it}{i}")
    return out


def expected_ctx(seq, i):
    ctx = {}
    for it in seq:
        if it == "index" or it.startswith("ctx."):
            continue
        ctx[f"seen_{it}"] = i
        ctx[f"parity{i % 2}"] = i
        if it == "a":
            ctx["tca"] = f"tca{i}"
            ctx["xa2"] = f"xa2{i}"
        if it == "b":
            ctx["kb"] = f"kb{i}"
    return ctx


def check_result(res, seq, i, groups, return_ctx, records_ctx=True):
    """Compare one ModeWrapper[int] result with the specification. Returns failure kind or None."""
    if return_ctx:
        if not (isinstance(res, tuple) and len(res) == 2 and isinstance(res[1], dict)):
            return "ctx_not_appended"
        res, ctx = res
        if ctx != (expected_ctx(seq, i) if records_ctx else {}):
            return "ctx_wrong_entries"
    else:
        if isinstance(res, tuple) and len(res) == 2 and isinstance(res[1], dict) and len(seq) != 2:
            return "ctx_appended_unrequested"
    if len(seq) == 1:
        vals = [res]
        if isinstance(res, tuple) and nonce(res) is None:
            return "single_item_not_bare"
    else:
        if not isinstance(res, tuple) or len(res) != len(seq):
            return "not_a_tuple_of_mode_length"
        vals = list(res)
    exp = expected_items(seq, i)
    for p, (v, e) in enumerate(zip(vals, exp)):
        if strip(v) != e:
            return "wrong_item_at_position"
    for g in groups:
        if all(m in seq for m in g):
            ns = {nonce(vals[seq.index(m)]) for m in g}
            if len(ns) != 1 or None in ns:
                return "group_members_not_from_one_joint_load"
    return None


def sig(kind, stack, seq, return_ctx, form):
    feat = []
    if "index" in seq:
        feat.append("index")
    if any(s.startswith("ctx.") for s in seq):
        feat.append("ctx_item")
    if len(set(seq)) != len(seq):
        feat.append("dup")
    return f"C01:{kind}|stack={stack}|form={form}|return_ctx={return_ctx}|mode_features={'+'.join(feat) or 'plain'}"


def slices(n):
    vals = [None] + list(range(-n - 1, n + 2))
    for a in vals:
        for b in vals:
            for st in (None, 1, 2, -1):
                yield slice(a, b, st)


def check_stack_mode(p, stack, builder, groups, seq, return_ctx, n, forms, histories):
    L = lib()
    mode = " ".join(seq)
    case = dict(stack=stack, mode=mode, return_ctx=return_ctx, n=n)
    try:
        mw = L["ModeWrapper"](builder(n), mode=mode, return_ctx=return_ctx)
    except AssertionError as e:
        p.count("constructor_rejected")
        return
    except Exception as e:
        p.violation(sig(f"constructor_exception:{type(e).__name__}", stack, seq, return_ctx, "construct"), case, repr(e))
        return

    def one(idx, form):
        p.evaluations += 1
        i = idx if idx >= 0 else n + idx
        try:
            res = mw[idx]
        except Exception as e:
            p.violation(sig(f"exception:{type(e).__name__}", stack, seq, return_ctx, form), dict(case, idx=idx), repr(e))
            return None
        try:
            kind = check_result(res, seq, i, groups, return_ctx, records_ctx=not stack.startswith('torch'))
        except Exception as e:
            kind = f"result_malformed:{type(e).__name__}"
        if kind is not None:
            p.violation(sig(kind, stack, seq, return_ctx, form), dict(case, idx=idx),
                        f"{stack} mode='{mode}' return_ctx={return_ctx} n={n} idx={idx}: {kind}; got {res!r}")
            return None
        return res

    def norm(res):
        if return_ctx:
            return (norm_items(res[0]), tuple(sorted(res[1].items())))
        return norm_items(res)

    def norm_items(r):
        if isinstance(r, tuple) and nonce(r) is None:
            return tuple(strip(v) for v in r)
        return strip(r)

    obs = []
    for idx in range(-n, n):
        r = one(idx, "neg_int" if idx < 0 else "int")
        if r is not None:
            obs.append(norm(r))
    p.observe((stack, mode, return_ctx, n, tuple(map(repr, obs))))
    if forms:
        ref = list(range(n))
        try:
            if len(mw) != n:
                p.violation(sig("len_wrong", stack, seq, return_ctx, "len"), case, f"len {len(mw)} != {n}")
            got = [norm(r) for r in mw]
            exp = [norm(mw[i]) for i in ref]
            p.evaluations += 1
            if got != exp:
                p.violation(sig("iter_differs", stack, seq, return_ctx, "iter"), case, f"{got} vs {exp}")
            # several passes over the same object at once (zip(ds, ds), nested loops, a pass resumed after another one ran)
            p.evaluations += 1
            zipped = [(norm(a), norm(b)) for a, b in zip(mw, mw)]
            if zipped != [(e, e) for e in exp]:
                p.violation(sig("overlapping_iterations_interfere", stack, seq, return_ctx, "iter"), dict(case, how="zip"),
                            f"zip(ds, ds) gives {len(zipped)} pairs {zipped[:3]}..., expected {n} pairs of equal samples")
            elif n >= 2:
                nested = sum(1 for _ in mw for _ in mw)
                it = iter(mw)
                head = [norm(next(it))]
                list(mw)
                rest = [norm(r) for r in it]
                if nested != n * n or head + rest != exp:
                    p.violation(sig("overlapping_iterations_interfere", stack, seq, return_ctx, "iter"), dict(case, how="nested/resumed"),
                                f"nested loops visit {nested} pairs (expected {n * n}); a pass resumed after another full pass gives "
                                f"{head + rest}, expected {exp}")
            for sl in slices(n):
                p.evaluations += 1
                got = mw[sl]
                exp = [norm(mw[i]) for i in ref[sl]]
                if not isinstance(got, list) or [norm(r) for r in got] != exp:
                    p.violation(sig("slice_differs", stack, seq, return_ctx, "slice"), dict(case, slice=repr(sl)),
                                f"mw[{sl}] = {got} expected {exp}")
            for k in (0, 1, 2):
                for lst in itertools.product(range(-n, n), repeat=k):
                    p.evaluations += 1
                    got = mw[list(lst)]
                    exp = [norm(mw[i]) for i in lst]
                    if not isinstance(got, list) or [norm(r) for r in got] != exp:
                        p.violation(sig("index_list_differs", stack, seq, return_ctx, "list"), dict(case, idxs=list(lst)),
                                    f"mw[{list(lst)}] = {got} expected {exp}")
        except Exception as e:
            p.violation(sig(f"exception:{type(e).__name__}", stack, seq, return_ctx, "sequence_forms"), case, repr(e))
    if histories:
        # every access sequence of length <= 3 on ONE object: each access must still equal the specification
        for k in (2, 3):
            for hist in itertools.product(range(-n, n), repeat=k):
                mw2 = L["ModeWrapper"](builder(n), mode=mode, return_ctx=return_ctx)
                mw_saved, mw = mw, mw2
                try:
                    for idx in hist:
                        one(idx, "history")
                finally:
                    mw = mw_saved
        # a second, independent stack of the same kind over OTHER data is used in between (train / test splits read in
        # lock-step): nothing of it may show up in this stack's samples
        sib_builder = stack_table(sibling=True)[stack][0]
        for j in range(n):
            for i in range(n):
                for first in (False, True):
                    mw2 = L["ModeWrapper"](builder(n), mode=mode, return_ctx=return_ctx)
                    sib = L["ModeWrapper"](sib_builder(n), mode=mode, return_ctx=return_ctx)
                    mw_saved, mw = mw, mw2
                    try:
                        if first:
                            one(i, "sibling_history")
                        try:
                            sib[j]
                        except Exception:
                            pass
                        one(i, "sibling_history")
                    finally:
                        mw = mw_saved


def shipped_checks(p, tier):
    """Shipped fused wrappers: ModeWrapper delivery must equal loading the group together once (seeded => deterministic)."""
    L = lib()
    torch = L["torch"]
    from kappadata.wrappers.sample_wrappers.kd_mix_wrapper import KDMixWrapper
    from kappadata.wrappers.sample_wrappers.x_transform_wrapper import XTransformWrapper
    from kappadata.wrappers.sample_wrappers.semseg_transform_wrapper import SemsegTransformWrapper
    from kappadata.transforms.semseg import KDSemsegRandomHorizontalFlip

    class TDS(L["KDDataset"]):
        def __init__(self, n):
            super().__init__()
            self.n = n

        def __len__(self):
            return self.n

        def getitem_x(self, idx, ctx=None):
            return torch.full((1, 2, 2), float(idx + 1))

        def getitem_class(self, idx, ctx=None):
            return int(idx) % 3

        def getitem_semseg(self, idx, ctx=None):
            return torch.arange(4).view(2, 2) + 10 * idx

        def getshape_class(self):
            return (3,)

    class AddOne:
        def __call__(self, x):
            return x + 1

    def same(a, b):
        if torch.is_tensor(a):
            return torch.is_tensor(b) and a.shape == b.shape and torch.equal(a, b)
        return a == b

    n = 4
    stacks = {
        "KDMixWrapper": (lambda: KDMixWrapper(TDS(n), mixup_p=1.0, mixup_alpha=1.0, seed=5), ("x", "class"), "xclass"),
        "XTransformWrapper>KDMixWrapper": (lambda: XTransformWrapper(KDMixWrapper(TDS(n), mixup_p=0.5, mixup_alpha=1.0, seed=7),
                                                                    transform=AddOne()), ("x", "class"), "xclass"),
        "SemsegTransformWrapper": (lambda: SemsegTransformWrapper(TDS(n), [KDSemsegRandomHorizontalFlip()], seed=3),
                                   ("x", "semseg"), "xsemseg"),
    }
    for name, (mk, group, joint) in stacks.items():
        alpha = list(group) + ["index"]
        for Lm in (1, 2, 3):
            for seq in itertools.product(alpha, repeat=Lm):
                for rc in (False, True):
                    mode = " ".join(seq)
                    try:
                        mw = L["ModeWrapper"](mk(), mode=mode, return_ctx=rc)
                    except AssertionError:
                        p.count("constructor_rejected")
                        continue
                    for idx in range(-n, n):
                        p.evaluations += 1
                        i = idx % n
                        case = dict(stack=name, mode=mode, return_ctx=rc, n=n, idx=idx, shipped=True)
                        try:
                            res = mw[idx]
                            jl = getattr(mk(), "getitem_" + joint)(i, {})
                            items = res[0] if rc else res
                            vals = [items] if len(seq) == 1 else list(items)
                            ok = len(vals) == len(seq)
                            for v, it in zip(vals, seq):
                                e = i if it == "index" else jl[group.index(it)]
                                ok = ok and same(v, e)
                            if rc and not isinstance(res[1], dict):
                                ok = False
                        except Exception as e:
                            p.violation(sig(f"exception:{type(e).__name__}", name, seq, rc, "shipped"), case, repr(e))
                            continue
                        if not ok:
                            p.violation(sig("differs_from_joint_load", name, seq, rc, "shipped"), case,
                                        f"{name} mode='{mode}' idx={idx}: {res!r} vs joint {jl!r}")
                        else:
                            p.observe((name, mode, rc, idx))


def task(args):
    stack, maxlen, sizes, part, nparts = args
    p = Partial()
    if stack == "__shipped__":
        shipped_checks(p, None)
        return p
    builder, groups, items = stack_table()[stack]
    ms = list(modes(maxlen, items))[part::nparts]
    for seq in ms:
        for rc in (False, True):
            for n in sizes:
                check_stack_mode(p, stack, builder, groups, seq, rc, n, forms=(len(seq) <= 2 and n <= 2),
                                 histories=(len(seq) <= 2 and n == 2))
    if ms:
        p.sample(dict(stack=stack, mode=" ".join(ms[len(ms) // 2]), sizes=list(sizes)))
    return p


def run(run):
    maxlen = 3 if run.tier == "quick" else 5
    sizes = (1, 2, 3) if run.tier == "quick" else (1, 2, 3, 4)
    nparts = 2 if run.tier == "quick" else 16
    tasks = [(s, maxlen, sizes, part, nparts) for s in stack_table() for part in range(nparts)]
    tasks.append(("__shipped__", 0, (), 0, 1))
    run.pmap(task, tasks)
    run.extra.update(bounds=dict(mode_len=f"1..{maxlen}", sizes=list(sizes), stacks=list(stack_table()) + ["shipped x3"]))
    run.assumptions += [
        "out-of-range int indices are outside the claimed domain",
        "for duplicated group members only the first occurrence must come from the joint load",
    ]


def replay(case):
    p = Partial()
    if case.get("shipped"):
        shipped_checks(p, None)
    else:
        builder, groups, items = stack_table()[case["stack"]]
        seq = tuple(case["mode"].split(" "))
        check_stack_mode(p, case["stack"], builder, groups, seq, case["return_ctx"], case["n"], forms=True, histories=True)
    if not p.violations:
        return None
    return "; ".join(m for _, m in list(p.violations.values())[:3])
