"""C15 - strength scaling interpolates from identity to the configured augmentation (E2 over factor sequences + E3 scheduled)."""
import copy
import itertools

from ..core.choice_rng import ChoiceRng
from ..core.explorer import Chooser
from ..core.runner import Partial
from . import transform_catalogue as cat

LEVEL = "model_checking"
RULE = ("BFS over all factor sequences of length <= L over the factor alphabet for every transform that supports strength scaling "
        "(found by introspection) and compositions of them; state = the numeric parameter vector of the transform and its members "
        "(og_* values are checked to be immutable instead); oracles: path independence (state after any path ending in f equals "
        "fresh.f), f=1 restores the constructed state, f=0 is the weakest setting, every bound moves monotonically; observable "
        "histories of length <= 3 over (node, factor) that scale nested members directly as well as through their containers - every "
        "node must end at the last factor that reached it; observable side via ChoiceRng at the range ends; scheduled transform: W simulated round-robin workers x batch sizes x schedule "
        "lengths x three budget kinds, strength per sample of global batch b == schedule value at b; transitions = scale/call steps")

NUM = (int, float)

SCALABLE = {
    "KDAdditiveGaussianNoise": [dict(std=0.1), dict(std=0.1, magnitude=0.6, magnitude_std=0.2, magnitude_min=0.1, magnitude_max=0.9),
                                dict(std=0.1, magnitude=0, magnitude_std=0.0, magnitude_max=0)],
    "KDAdditiveUniformNoise": [dict(), dict(magnitude=0.5, magnitude_std=0.1)],
    "KDColorJitter": [dict(brightness=0.4, contrast=0.4, saturation=0.2, hue=0.1), dict(brightness=(0.5, 1.2), hue=(-0.2, 0.3)),
                      dict(contrast=0.8),
                      # ranges whose lower bound is exactly 0 (jitter >= 1 is clipped to 0 by torchvision) and the widest hue
                      dict(brightness=1.0, contrast=1.5, saturation=(0.0, 1.6), hue=0.5)],
    "KDGaussianBlurPIL": [dict(sigma=(0.1, 2.0)), dict(sigma=1.5)],
    "KDGaussianBlurTV": [dict(kernel_size=3, sigma=(0.1, 2.0))],
    "KDRandAugment": [dict(num_ops=2, magnitude=9, magnitude_std=0.5, interpolation="bicubic", fill_color=(124, 116, 104))],
    "KDRandAugmentCustom": [dict(num_ops=2, magnitude=5, interpolation="bicubic", fill_color=(0, 0, 0))],
    "KDRandomAdditiveGaussianNoise": [dict(p=0.5, std=0.1)],
    "KDRandomColorJitter": [dict(p=0.8, brightness=0.4, contrast=0.4, saturation=0.2, hue=0.1)],
    "KDRandomGaussianBlurPIL": [dict(p=0.5, sigma=(0.1, 2.0))],
    "KDRandomGaussianBlurTV": [dict(p=0.5, kernel_size=3, sigma=(0.1, 2.0))],
    "KDRandomGrayscale": [dict(p=0.2), dict(p=1.0), dict(p=0.0)],
    "KDRandomRotation": [dict(degrees=30), dict(degrees=(-10, 10)), dict(degrees=0)],
    "KDRandomSolarize": [dict(p=0.2, threshold=128), dict(p=0.2, threshold=0.5), dict(p=0.2, threshold=0), dict(p=0.2, threshold=0.0)],
    "KDRandomThreshold": [dict(p=0.5, threshold=0.5, threshold_std=0.1)],
    "KDSolarize": [dict(threshold=128), dict(threshold=0.25), dict(threshold=0), dict(threshold=0.0)],
    "KDThreshold": [dict(threshold=0.5, threshold_std=0.1), dict(threshold=0.0), dict(threshold=1.0, threshold_min=0.5, threshold_std=0.2)],
}

# attribute name -> expected value at factor 0 ('=sigma_lb' means equal to that other attribute); anything else must satisfy lb == ub
AT_ZERO = {
    "brightness_lb": 1, "brightness_ub": 1, "contrast_lb": 1, "contrast_ub": 1, "saturation_lb": 1, "saturation_ub": 1,
    "hue_lb": 0, "hue_ub": 0, "degree_lb": 0, "degree_ub": 0, "magnitude": 0, "magnitude_std": 0, "magnitude_min": 0,
    "magnitude_max": 0,
}


def params(obj, prefix="", seen=None):
    """Numeric parameter vector {path: value} of a transform and its members, without rng / og_* / ctx keys."""
    from kappadata.transforms.base.kd_transform import KDTransform
    from kappadata.utils.magnitude_sampler import MagnitudeSampler
    seen = seen if seen is not None else set()
    if id(obj) in seen:
        return {}
    seen.add(id(obj))
    out = {}
    for k, v in sorted(vars(obj).items()):
        if k in ("rng", "logger") or k.startswith("ctx_") or k.startswith("og_"):
            continue
        if isinstance(v, bool) or v is None or isinstance(v, str):
            continue
        if isinstance(v, NUM):
            if v in (float("inf"), float("-inf")) or v != v:
                continue  # 'inf' selects the uniform magnitude sampler at construction; it is a mode flag, not a range bound
            out[prefix + k] = v
        elif isinstance(v, tuple) and all(isinstance(x, NUM) and not isinstance(x, bool) for x in v):
            for i, x in enumerate(v):
                out[f"{prefix}{k}[{i}]"] = x
        elif isinstance(v, (KDTransform, MagnitudeSampler)):
            out.update(params(v, prefix + k + ".", seen))
        elif isinstance(v, list) and any(isinstance(x, KDTransform) for x in v):
            for i, x in enumerate(v):
                if isinstance(x, KDTransform):
                    out.update(params(x, f"{prefix}{k}[{i}].", seen))
    return out


def og_params(obj, prefix="", seen=None):
    from kappadata.transforms.base.kd_transform import KDTransform
    from kappadata.utils.magnitude_sampler import MagnitudeSampler
    seen = seen if seen is not None else set()
    if id(obj) in seen:
        return {}
    seen.add(id(obj))
    out = {}
    for k, v in sorted(vars(obj).items()):
        if k.startswith("og_") and isinstance(v, NUM):
            out[prefix + k] = v
        elif isinstance(v, (KDTransform, MagnitudeSampler)):
            out.update(og_params(v, prefix + k + ".", seen))
        elif isinstance(v, list):
            for i, x in enumerate(v):
                if isinstance(x, KDTransform):
                    out.update(og_params(x, f"{prefix}{k}[{i}].", seen))
    return out


def nodes(obj, prefix="", seen=None):
    """{params()-prefix: KDTransform} of a transform and all nested members (the root has prefix '')."""
    from kappadata.transforms.base.kd_transform import KDTransform
    seen = seen if seen is not None else set()
    if id(obj) in seen:
        return {}
    seen.add(id(obj))
    out = {prefix: obj} if isinstance(obj, KDTransform) else {}
    for k, v in sorted(vars(obj).items()):
        if k in ("rng", "logger"):
            continue
        if isinstance(v, KDTransform):
            out.update(nodes(v, prefix + k + ".", seen))
        elif isinstance(v, list) and any(isinstance(x, KDTransform) for x in v):
            for i, x in enumerate(v):
                if isinstance(x, KDTransform):
                    out.update(nodes(x, f"{prefix}{k}[{i}].", seen))
    return out


class Plain:
    """a plain callable (a torchvision transform, a lambda): legal member of a composition, knows nothing about strength"""

    def __call__(self, x):
        return x


def build(spec):
    kind = spec[0]
    if kind == "plain":
        return Plain()
    if kind == "leaf":
        return cat.leaf_class(spec[1])(**SCALABLE[spec[1]][spec[2]])
    if kind == "compose":
        from kappadata.transforms.base.kd_compose_transform import KDComposeTransform
        return KDComposeTransform([build(s) for s in spec[1:]])
    raise ValueError(spec)


def name(spec):
    if spec[0] == "plain":
        return "plain"
    if spec[0] == "leaf":
        return spec[1]
    return "Compose[" + ",".join(name(s) for s in spec[1:]) + "]"


def specs(tier):
    leaves = [("leaf", n, i) for n, vs in SCALABLE.items() for i in range(len(vs))]
    out = list(leaves)
    sub = [("leaf", "KDColorJitter", 0), ("leaf", "KDRandomRotation", 0), ("leaf", "KDRandomSolarize", 0),
           ("leaf", "KDRandomThreshold", 0), ("leaf", "KDGaussianBlurTV", 0), ("leaf", "KDRandomGrayscale", 0)]
    for a in sub:
        for b in sub:
            out.append(("compose", a, b))
    for a in sub[:3]:
        out.append(("compose", ("compose", a, sub[3]), sub[4]))
    # plain callables at every position of a composition (first, middle, last, inside a nested composition)
    pl = ("plain",)
    for a in sub:
        out += [("compose", pl, a), ("compose", a, pl), ("compose", a, pl, sub[0]), ("compose", pl, pl, a),
                ("compose", ("compose", pl, a), sub[1]), ("compose", sub[1], ("compose", a, pl, sub[2]))]
    return out


def close(a, b):
    if a == b or (a != a and b != b):
        return True
    return abs(a - b) <= 1e-12 * max(1.0, abs(a), abs(b))


def check_scaling(spec, factors, maxlen, p):
    nm = name(spec)
    case = dict(spec=spec)

    def bad(kind, msg, attr=""):
        short = attr.split(".")[-1] if attr else ""
        leaf = attr.split(".")[-2] if attr.count(".") else ""
        p.violation(f"C15:{kind}|{nm if spec[0] == 'leaf' else 'composition'}|{short}", dict(case, detail=msg[:300]),
                    f"{nm}: {msg}")

    try:
        fresh = build(spec)
        base = params(fresh)
        og0 = og_params(fresh)
    except Exception as e:
        bad(f"exception_at_construct:{type(e).__name__}", repr(e))
        return
    if not base:
        return
    # reference: fresh . f for every factor
    ref = {}
    for f in factors:
        t = build(spec)
        try:
            t.scale_strength(f)
        except AssertionError as e:
            bad("scale_strength_raises:AssertionError", f"scale_strength({f}) on a freshly constructed transform: {e!r}")
            return
        except Exception as e:
            bad(f"scale_strength_raises:{type(e).__name__}", f"scale_strength({f}): {e!r}")
            return
        ref[f] = {k: v for k, v in params(t).items() if k in base}  # bookkeeping attributes that appear later are not parameters
        if not set(base) <= set(ref[f]):
            bad("parameter_disappeared", f"after scale_strength({f}): {sorted(set(base) - set(ref[f]))}")
            return
        p.transitions += 1
        if og_params(t) != og0:
            bad("og_values_mutated", f"after scale_strength({f})")
    # f = 1 restores construction, f = 0 weakest
    for k, v in base.items():
        if 1.0 in ref and not close(ref[1.0][k], v):
            bad("factor_one_does_not_restore", f"{k}: constructed {v}, after scale_strength(1) {ref[1.0][k]}", k)
    if 0.0 in ref:
        z = ref[0.0]
        for k, v in z.items():
            short = k.split(".")[-1]
            changed = any(not close(ref[f][k], base[k]) for f in factors)
            if short in AT_ZERO:
                if not close(v, AT_ZERO[short]):
                    bad("factor_zero_not_weakest", f"{k} = {v} at factor 0, weakest is {AT_ZERO[short]}", k)
            elif short == "threshold" and changed:
                exp = 256 if isinstance(base[k], int) else 1.0
                if not close(v, exp):
                    bad("factor_zero_not_weakest", f"{k} = {v} at factor 0, identity is {exp}", k)
            elif short == "p" and changed and not close(v, 0):
                bad("factor_zero_not_weakest", f"{k} = {v} at factor 0", k)
            elif short.endswith("_ub") and changed:
                lb = k[:-3] + "_lb"
                if lb in z and not close(v, z[lb]):
                    bad("factor_zero_range_not_collapsed", f"{k} = {v} but {lb} = {z[lb]} at factor 0", k)
    # monotone between the two ends
    fs = sorted(factors)
    for k in base:
        if 0.0 in ref and 1.0 in ref:
            direction = ref[1.0][k] - ref[0.0][k]
            for f1, f2 in zip(fs, fs[1:]):
                d = ref[f2][k] - ref[f1][k]
                if d * direction < -1e-12 or (abs(direction) < 1e-15 and abs(d) > 1e-12):
                    bad("not_monotone", f"{k}: {[(f, ref[f][k]) for f in fs]}", k)
                    break
    # BFS over factor sequences: state after a path ending in f must equal fresh.f (no compounding)
    frontier = [()]
    seen_states = set()
    for depth in range(maxlen):
        nxt = []
        for path in frontier:
            for f in factors:
                t = build(spec)
                for g in path + (f,):
                    t.scale_strength(g)
                    p.transitions += 1
                st = {k: v for k, v in params(t).items() if k in base}
                p.traces += 1
                key = tuple(sorted(st.items()))
                p.state((nm, key))
                if set(st) != set(base):
                    bad("parameter_disappeared", f"after factors {path + (f,)}: {sorted(set(base) - set(st))}")
                elif any(not close(st[k], ref[f][k]) for k in st):
                    k = [k for k in st if not close(st[k], ref[f][k])][0]
                    bad("compounds_over_factor_history", f"after factors {path + (f,)}: {k} = {st[k]}, fresh.scale({f}) gives {ref[f][k]}", k)
                if og_params(t) != og0:
                    bad("og_values_mutated", f"after factors {path + (f,)}")
                nxt.append(path + (f,))
        frontier = nxt
    # histories that also scale members directly (not only through the root): every node's parameters must be those of the
    # last factor that reached it - given to the node itself or to any container above it
    tree = nodes(fresh)
    if len(tree) > 1:
        tf = [f for f in (0.0, 0.5, 1.0) if f in ref]
        alphabet = [(pre, f) for pre in sorted(tree) for f in tf]
        tlen = min(maxlen, 3)
        if len(alphabet) ** tlen > 4000:
            tlen = 2
            p.count("targeted_history_length_reduced")
        owner = {k: max((pre for pre in tree if k.startswith(pre)), key=len) for k in base}
        for L in range(2, tlen + 1):
            for hist in itertools.product(alphabet, repeat=L):
                if all(pre == "" for pre, _ in hist):
                    continue  # root-only histories: the BFS above
                t = build(spec)
                tn = nodes(t)
                try:
                    for pre, f in hist:
                        tn[pre].scale_strength(f)
                        p.transitions += 1
                except Exception as e:
                    bad(f"scale_strength_raises:{type(e).__name__}", f"history {hist}: {e!r}")
                    break
                st = params(t)
                p.traces += 1
                wrong = None
                for k in base:
                    last = None
                    for pre, f in hist:
                        if owner[k].startswith(pre):
                            last = f
                    exp = base[k] if last is None else ref[last][k]
                    if k not in st or not close(st[k], exp):
                        wrong = (k, st.get(k), exp, last)
                        break
                if wrong:
                    bad("member_state_not_from_last_factor",
                        f"history (node, factor) {[(pre or '<root>', f) for pre, f in hist]}: {wrong[0]} = {wrong[1]}, the last factor "
                        f"that reached it is {wrong[3]} which gives {wrong[2]}", wrong[0])
                    break
                p.state((nm, "targeted", tuple(sorted(st.items()))))
            else:
                continue
            break
    p.evaluations += 1
    p.observe((nm, tuple(sorted((f, tuple(sorted(ref[f].items()))) for f in ref))))


def check_observable(p):
    """The sampled parameter at the ends of the range equals the bound held in the state (ties state to behaviour)."""
    import torch
    for f in (0.0, 0.5, 1.0):
        for end, frac in (("lb", 0.0), ("ub", 1.0)):
            ch = Chooser(())
            rng = ChoiceRng(ch, frac=(frac,), unit=(0.0,))
            cj = cat.leaf_class("KDColorJitter")(brightness=0.4, contrast=0.4, saturation=0.2, hue=0.1)
            cj.scale_strength(f)
            cj.set_rng(rng)
            ctx = {}
            cj(torch.rand(3, 4, 4), ctx=ctx)
            for nm_ in ("brightness", "contrast", "saturation", "hue"):
                want = getattr(cj, f"{nm_}_{end}")
                got = ctx[f"KDColorJitter.{nm_}"]
                if want != 0 and abs(got - want) > 1e-9:
                    p.violation(f"C15:sampled_parameter_not_at_bound|KDColorJitter|{nm_}_{end}", dict(observable=True, f=f),
                                f"KDColorJitter factor {f}: sampled {nm_} {got} at the {end} end, state says {want}")
            gb = cat.leaf_class("KDGaussianBlurTV")(kernel_size=3, sigma=(0.1, 2.0))
            gb.scale_strength(f)
            gb.set_rng(ChoiceRng(Chooser(()), frac=(frac,)))
            ctx = {}
            gb(torch.rand(3, 4, 4), ctx=ctx)
            want = getattr(gb, f"sigma_{end}")
            if abs(ctx["KDGaussianBlurTV.sigma"] - want) > 1e-9:
                p.violation(f"C15:sampled_parameter_not_at_bound|KDGaussianBlurTV|sigma_{end}", dict(observable=True, f=f),
                            f"factor {f}: sampled sigma {ctx['KDGaussianBlurTV.sigma']} vs bound {want}")
            p.evaluations += 2
        # magnitude samplers: whatever the generator answers (also extreme normal draws / both ends of the uniform range), the
        # sampled magnitude lies inside the range scaled by the factor
        from kappadata.utils.magnitude_sampler import MagnitudeSampler
        for std in (0.0, 0.2, float("inf")):
            for zi in range(3):
                ms = MagnitudeSampler(magnitude=0.6, magnitude_std=std, magnitude_min=0.1, magnitude_max=0.9)
                ms.scale_strength(f)
                rng = ChoiceRng(Chooser((zi,)), z=(-1e6, 0.0, 1e6), frac=(0.0, 0.5, 1.0))
                got = ms.sample(rng)
                # what is SAMPLED must depend on the last factor only, like the attributes: the same after factor histories
                for hist in ((0.0,), (0.0, 0.5), (1.0, 0.0), (0.5, 0.0, 1.0)):
                    ms2 = MagnitudeSampler(magnitude=0.6, magnitude_std=std, magnitude_min=0.1, magnitude_max=0.9)
                    for g in hist + (f,):
                        ms2.scale_strength(g)
                    got2 = ms2.sample(ChoiceRng(Chooser((zi,)), z=(-1e6, 0.0, 1e6), frac=(0.0, 0.5, 1.0)))
                    p.evaluations += 1
                    if not (got2 == got or (got2 != got2 and got != got)):
                        p.violation("C15:sampled_magnitude_depends_on_factor_history|MagnitudeSampler|", dict(observable=True, f=f),
                                    f"magnitude_std {std}, generator answer #{zi}: factors {hist + (f,)} sample {got2}, a fresh sampler scaled "
                                    f"to {f} samples {got}")
                        break
                p.evaluations += 1
                lo, hi = 0.1 * f, (0.9 if std not in (0.0, float("inf")) else 0.6) * f
                if not (lo - 1e-12 <= got <= hi + 1e-12):
                    p.violation(f"C15:sampled_magnitude_outside_scaled_range|MagnitudeSampler|std={'0' if std == 0 else 'inf' if std == float('inf') else 'finite'}",
                                dict(observable=True, f=f), f"factor {f}, magnitude_std {std}, generator answer #{zi}: sampled {got}, scaled range [{lo}, {hi}]")
        for zi in range(3):
            noise = cat.leaf_class("KDAdditiveGaussianNoise")(std=0.1, magnitude=0.6, magnitude_std=0.2, magnitude_min=0.1, magnitude_max=0.9)
            noise.scale_strength(f)
            noise.set_rng(ChoiceRng(Chooser((zi,)), z=(-1e6, 0.0, 1e6)))
            ctx = {}
            noise(torch.rand(3, 4, 4), ctx=ctx)
            mags = [v for k, v in ctx.items() if "magnitude" in k]
            p.evaluations += 1
            if not mags or not (0.1 * f - 1e-12 <= float(mags[0]) <= 0.9 * f + 1e-12):
                p.violation("C15:sampled_magnitude_outside_scaled_range|KDAdditiveGaussianNoise|", dict(observable=True, f=f),
                            f"factor {f}, generator answer #{zi}: recorded magnitude {mags}, scaled range [{0.1 * f}, {0.9 * f}]")
        # a scaled apply probability must be the probability in effect: applied iff the unit draw falls below p * factor
        for p0 in (1.0, 0.5, 0.2):
            eff = p0 * f
            for u in sorted({0.0, max(0.0, eff - 1e-6), min(1.0 - 1e-9, eff + 1e-6), 1.0 - 1e-9}):
                gs = cat.leaf_class("KDRandomGrayscale")(p=p0)
                gs.scale_strength(f)
                gs.set_rng(ChoiceRng(Chooser(()), unit=(u,)))
                img = torch.stack([torch.full((4, 4), 0.9), torch.full((4, 4), 0.1), torch.full((4, 4), 0.5)])
                out = gs(img.clone(), ctx={})
                applied = not torch.equal(out, img)
                p.evaluations += 1
                if applied != (u < eff):
                    p.violation(f"C15:apply_probability_not_scaled|KDRandomGrayscale|p={'1' if p0 == 1.0 else '<1'}", dict(observable=True, f=f),
                                f"KDRandomGrayscale(p={p0}) at factor {f} (probability in effect {eff}): unit draw {u} -> "
                                f"{'applied' if applied else 'not applied'}")
        so = cat.leaf_class("KDSolarize")(threshold=0.25)
        so.scale_strength(f)
        ctx = {}
        so(torch.rand(3, 4, 4), ctx=ctx)
        if abs(ctx["KDSolarize.threshold"] - (1.0 - 0.75 * f)) > 1e-9:
            p.violation("C15:sampled_parameter_not_at_bound|KDSolarize|threshold", dict(observable=True, f=f),
                        f"factor {f}: ctx threshold {ctx['KDSolarize.threshold']}")
        p.evaluations += 1


# ------------------------------------------------------------------------------- scheduled transform (E3)

def check_scheduled(W, bs, n_batches, kind, p):
    import torch
    import kappadata.transforms.base.kd_transform as kdt_mod
    from kappadata.transforms.base.kd_transform import KDTransform
    from kappadata.transforms.base.kd_scheduled_transform import KDScheduledTransform

    class Probe(KDTransform):
        def __init__(self):
            super().__init__()
            self.factor = None

        def _scale_strength(self, factor):
            self.factor = factor

        def __call__(self, x, ctx=None):
            return (x, self.factor)

    class Info:
        num_workers = W

    from kappadata.transforms.base.kd_compose_transform import KDComposeTransform

    class Inherits(Probe):
        """scaling hook inherited from the parent class, not defined in the class body (like KDRandAugmentCustom)"""

    class Pipeline(KDComposeTransform):
        """a ready-made pipeline: a compose subclass (like BYOLTransform), wrapped directly"""

        def __init__(self):
            super().__init__([Inherits()])

    wrapped = (Probe, Inherits, Pipeline)[(n_batches + bs + W) % 3]()
    sched = KDScheduledTransform(wrapped)
    schedule = sched.schedule
    if kind == "updates":
        kw = dict(updates=n_batches)
    elif kind == "samples":
        kw = dict(samples=n_batches * bs)
    else:
        # epochs: 2 epochs (or 1); dataset_len is the GLOBAL length, every rank sees dataset_len // world_size samples.
        # 'epochs': drop_last with a dropped remainder; 'epochs_keep': drop_last=False with a per-rank length that is a
        # multiple of the batch size (full batches only) but a global remainder of 1..world_size-1 samples
        ep = 2 if n_batches % 2 == 0 else 1
        per = n_batches // ep
        ws = 1 + (n_batches + W) % 3  # world sizes 1..3
        if kind == "epochs":
            kw = dict(epochs=ep, dataset_len=(per * bs + (bs - 1)) * ws + (ws - 1), world_size=ws, drop_last=True)
        else:
            kw = dict(epochs=ep, dataset_len=per * bs * ws + (ws - 1), world_size=ws, drop_last=False)
    saved = kdt_mod.get_worker_info
    kdt_mod.get_worker_info = lambda: Info()
    try:
        workers = []
        for r in range(W):
            w = copy.deepcopy(sched)
            w.worker_init_fn(r, batch_size=bs, **kw)
            workers.append(w)
    finally:
        kdt_mod.get_worker_info = saved
    case = dict(scheduled=True, W=W, batch_size=bs, n_batches=n_batches, kind=kind)
    for b in range(n_batches):
        w = workers[b % W]
        exp = schedule.get_value(b, n_batches)
        for s in range(bs):
            ctx = {}
            _, applied = w(torch.zeros(1), ctx=ctx)
            p.transitions += 1
            got = ctx.get("KDScheduledTransform.strength")
            if got is None or abs(got - exp) > 1e-12 or applied is None or abs(applied - exp) > 1e-12:
                p.violation(f"C15:scheduled_strength_wrong|budget={kind}|workers={'1' if W == 1 else 'many'}", case,
                            f"W={W} batch_size={bs} n_batches={n_batches} ({kind}): sample {s} of global batch {b} (worker {b % W}) "
                            f"got ctx strength {got}, applied {applied}, schedule value {exp}")
                return
        p.state(("sched", b, n_batches, round(exp, 9)))
    p.traces += 1
    p.evaluations += 1
    p.observe(("sched", W, bs, n_batches, kind))


def task(args):
    what, payload, factors, maxlen = args
    p = Partial()
    if what == "scale":
        for spec in payload:
            try:
                check_scaling(spec, factors, maxlen, p)
            except Exception as e:
                p.violation(f"C15:exception:{type(e).__name__}|{name(spec) if spec[0] == 'leaf' else 'composition'}|", dict(spec=spec), f"{name(spec)}: {e!r}")
        p.sample(dict(spec=name(payload[0]), factors=list(factors), max_sequence_length=maxlen))
    elif what == "observable":
        try:
            check_observable(p)
        except Exception as e:
            p.violation(f"C15:sampling_at_range_end_raises:{type(e).__name__}", dict(observable=True),
                        f"sampling a parameter at the end of a scaled range raised {e!r}")
    else:
        for W, bs, n, kind in payload:
            try:
                check_scheduled(W, bs, n, kind, p)
            except Exception as e:
                p.violation(f"C15:scheduled_exception:{type(e).__name__}|budget={kind}", dict(scheduled=True, W=W, batch_size=bs, n_batches=n, kind=kind),
                            f"W={W} batch_size={bs} n_batches={n} ({kind}): {e!r}")
        p.sample(dict(scheduled=dict(W=payload[0][0], batch_size=payload[0][1], n_batches=payload[0][2], budget=payload[0][3])))
    return p


def run(run):
    cat.discover()
    factors = (0.0, 0.25, 0.5, 1.0) if run.tier == "quick" else (0.0, 0.25, 0.5, 0.75, 1.0)
    maxlen = 3 if run.tier == "quick" else 5
    sp = specs(run.tier)
    tasks = [("scale", sp[i:i + 3], factors, maxlen) for i in range(0, len(sp), 3)]
    tasks.append(("observable", None, factors, maxlen))
    sched = [(W, bs, n, kind) for W in (1, 2, 3, 4) for bs in (1, 2, 3) for n in range(1, 9) for kind in ("updates", "samples", "epochs", "epochs_keep")]
    tasks += [("sched", sched[i:i + 40], factors, maxlen) for i in range(0, len(sched), 40)]
    run.pmap(task, tasks)
    classes, _ = cat.discover()
    supports = sorted(n for n, c in classes.items() if c.supports_scale_strength() and n not in ("KDComposeTransform",))
    run.extra.update(bounds=dict(factors=list(factors), max_sequence_length=maxlen, workers="1..4", batch_sizes="1..3", n_batches="1..8"),
                     specs=len(sp), classes_supporting_scale_strength=supports,
                     uncovered_classes=[n for n in supports if n not in SCALABLE])
    run.assumptions += [
        "the weakest setting per parameter name is the table AT_ZERO in kdverif/props/c15.py (identity values of the torchvision ops)",
        "scheduled transform: full batches only (stated domain); a worker is deepcopy + worker_init_fn with get_worker_info patched",
    ]


def _t(x):
    return tuple(_t(i) for i in x) if isinstance(x, list) else x


def replay(case):
    p = Partial()
    cat.discover()
    if case.get("scheduled"):
        check_scheduled(case["W"], case["batch_size"], case["n_batches"], case["kind"], p)
    elif case.get("observable"):
        check_observable(p)
    else:
        check_scaling(_t(case["spec"]), (0.0, 0.25, 0.5, 0.75, 1.0), 3, p)
    return None if not p.violations else "; ".join(m for _, m in list(p.violations.values())[:3])
