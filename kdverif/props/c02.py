"""C02 - stacked subsets / concats / wrappers address the right underlying sample (E1 product vs list model)."""
import itertools

from ..core.runner import Partial

LEVEL = "exploration"
RULE = ("all stack specs with <= K nodes over the grammar Base(n in 0..3) | Sub(child, idxs) | IdWrapper(child) | "
        "IdWrapper2(child) | Cat(1..3 children) | Cat(child, same child) | BalancedCat(2 children) | shipped subset wrappers as index-map layers; "
        "Sub index lists: every list of length <= 2 over [-L, L) plus identity/reversed/dup-first (full menu near the leaves, "
        "6-entry menu deeper); every stack is compared with a Python-list reference model on every index k in [-len, len), "
        "every item, the bulk accessors and (linear chains) every introspection query; distinct = distinct (stack spec, model) pairs "
        "with a non-empty model")

_LIB = {}


def lib():
    if _LIB:
        return _LIB
    import numpy as np
    import torch
    from kappadata.datasets.kd_dataset import KDDataset
    from kappadata.datasets.kd_wrapper import KDWrapper
    from kappadata.datasets.kd_subset import KDSubset
    from kappadata.datasets.kd_concat_dataset import KDConcatDataset
    from kappadata.wrappers.dataset_wrappers.shuffle_wrapper import ShuffleWrapper
    from kappadata.wrappers.dataset_wrappers.repeat_wrapper import RepeatWrapper
    from kappadata.wrappers.dataset_wrappers.subset_wrapper import SubsetWrapper
    import importlib
    import sys
    importlib.import_module("kappadata.utils.getall_as_tensor")
    gat = sys.modules["kappadata.utils.getall_as_tensor"]

    class Base(KDDataset):
        """Root dataset with list semantics (negative indices count from the end, like a dataset backed by a list)."""

        def __init__(self, tag, n, bulk="list"):
            super().__init__()
            self.tag, self.n, self.bulk = tag, n, bulk
            self.data = [(tag, j) for j in range(n)]
            self.cls = [(j + tag) % 3 for j in range(n)]
            self.disposed = 0
            self.marker = f"marker{tag}"
            self._split = f"split{tag}"
            self.dataset = ("backing store", tag)  # roots backed by a torch dataset keep it in an attribute of this name  # a 'private' attribute of the root: reachable through every chain like a public one

        def __len__(self):
            return self.n

        def getitem_x(self, idx, ctx=None):
            return self.data[idx]

        def getitem_class(self, idx, ctx=None):
            return self.cls[idx]

        def getall_x(self):
            if self.bulk == "alias":
                return self.data  # the internal list itself (as KDRandomClassWrapper.getall_class does)
            return list(self.data)

        def getall_class(self):
            if self.bulk == "tensor":
                return torch.tensor(self.cls, dtype=torch.long)
            if self.bulk == "numpy":
                return np.array(self.cls, dtype=np.int64)
            if self.bulk == "alias":
                return self.cls
            return list(self.cls)

        # a float-valued item (scores, weights, soft targets): bulk utilities must not change its values
        def getitem_score(self, idx, ctx=None):
            return self.cls[idx] + 0.25

        def getall_score(self):
            return [c + 0.25 for c in self.cls]

        def getshape_class(self):
            return (3,)

        # more items, with names that start with the letters of the 'getshape_' / 'getdim_' prefixes
        def getshape_target(self):
            return (7,)

        def getshape_timestep(self):
            return (1000,)

        def getshape_step(self):
            return (5,)

        def getshape_mask(self):
            return (11,)

        def getshape_edge_attr(self):
            return (13,)

        def getshape_attr(self):
            return (17,)

        def getshape_x(self):
            return (19,)

        def dispose(self):
            self.disposed += 1

    class IdW(KDWrapper):
        pass

    class IdW2(KDWrapper):
        pass

    class Foreign(KDWrapper):
        pass

    _LIB.update(np=np, torch=torch, Base=Base, IdW=IdW, IdW2=IdW2, Foreign=Foreign, KDSubset=KDSubset,
                KDConcatDataset=KDConcatDataset, ShuffleWrapper=ShuffleWrapper, RepeatWrapper=RepeatWrapper,
                SubsetWrapper=SubsetWrapper, gat=gat, KDWrapper=KDWrapper)
    return _LIB


# ------------------------------------------------------------------------------- spec enumeration

def sub_menu(L, full):
    if L == 0:
        return [()]
    rng = list(range(-L, L))
    if full:
        m = [()] + [(a,) for a in rng] + [(a, b) for a in rng for b in rng]
        m += [tuple(range(L)), tuple(reversed(range(L))), (0,) + tuple(range(L))]
    else:
        m = [(), (-1,), (0,), (L - 1, -L), tuple(reversed(range(L))), (0,) + tuple(range(L))]
    out, seen = [], set()
    for x in m:
        if x not in seen:
            seen.add(x)
            out.append(x)
    return out


def mlen(spec):
    k = spec[0]
    if k == 'B':
        return spec[1]
    if k in 'IJ':
        return mlen(spec[1])
    if k == 'S':
        return len(spec[2])
    if k == 'C':
        return sum(mlen(c) for c in spec[1])
    if k == 'L':
        return None
    if k == 'D':
        return 2 * mlen(spec[1])
    if k == 'W':
        n = mlen(spec[2])
        return {"shuffle": n, "repeat2": 2 * n, "tail": max(0, n - 1)}[spec[1]]
    raise ValueError(spec)


def nodes(spec):
    k = spec[0]
    if k == 'B':
        return 1
    if k in 'IJD':
        return 1 + nodes(spec[1])
    if k == 'S':
        return 1 + nodes(spec[1])
    if k in 'CL':
        return 1 + sum(nodes(c) for c in spec[1])
    if k == 'W':
        return 1 + nodes(spec[2])


def has_balanced(spec):
    k = spec[0]
    if k == 'L':
        return True
    if k == 'B':
        return False
    if k == 'C':
        return any(has_balanced(c) for c in spec[1])
    return has_balanced(spec[1] if k != 'W' else spec[2])


_CACHE = {}


def stacks(k, maxfull=3):
    """All specs with exactly k nodes (memoised)."""
    key = (k, maxfull)
    if key in _CACHE:
        return _CACHE[key]
    out = []
    if k == 1:
        out = [('B', n) for n in range(4)]
    else:
        for child in stacks(k - 1, maxfull):
            if has_balanced(child):
                # a balanced concat has no len: only a mode-free identity wrapper may sit on top of it
                out.append(('I', child))
                continue
            L = mlen(child)
            out.append(('I', child))
            out.append(('J', child))
            for idxs in sub_menu(L, full=(k <= maxfull)):
                out.append(('S', child, idxs))
            if L > 0:
                for w in ("shuffle", "repeat2", "tail"):
                    out.append(('W', w, child))
            out.append(('C', (child,)))
            if L > 0:
                out.append(('L', (child,)))  # a balanced concat of ONE part: item k is sample k % len(part)
            out.append(('D', child))  # concat of the SAME object twice (shared part)
        # concats of 2..3 parts
        for parts in (2, 3):
            for sizes in _compositions(k - 1, parts):
                for combo in itertools.product(*[stacks(s, maxfull) for s in sizes]):
                    if any(has_balanced(c) for c in combo):
                        continue
                    out.append(('C', combo))
                    if parts == 2 and all(mlen(c) > 0 for c in combo):
                        out.append(('L', combo))
    _CACHE[key] = out
    return out


def _compositions(total, parts):
    if parts == 1:
        if total >= 1:
            yield (total,)
        return
    for first in range(1, total - parts + 2):
        for rest in _compositions(total - first, parts - 1):
            yield (first,) + rest


# ------------------------------------------------------------------------------- build + model

class Env:
    def __init__(self, bulk="list"):
        self.tag = 0
        self.bases = []
        self.bulk = bulk


def build(spec, env):
    """-> (object, model, chain) ; model: list of (tag, j) or ('bal', [models]); chain: wrappers top-down or None."""
    L = lib()
    k = spec[0]
    if k == 'B':
        b = L["Base"](env.tag, spec[1], env.bulk)
        env.tag += 1
        env.bases.append(b)
        return b, list(b.data), [], b
    if k in 'IJ':
        o, m, ch, root = build(spec[1], env)
        w = (L["IdW"] if k == 'I' else L["IdW2"])(o)
        return w, m, (None if ch is None else [w] + ch), root
    if k == 'S':
        o, m, ch, root = build(spec[1], env)
        idxs = list(spec[2])
        if env.bulk == "numpy":
            idxs = L["np"].array(idxs, dtype=L["np"].int64)  # index containers as the shipped subset wrappers build them
        elif env.bulk == "tensor":
            idxs = L["torch"].tensor(idxs, dtype=L["torch"].long)
        w = L["KDSubset"](o, idxs)
        return w, [m[i] for i in spec[2]], (None if ch is None else [w] + ch), root
    if k == 'W':
        o, m, ch, root = build(spec[2], env)
        if spec[1] == "shuffle":
            w = L["ShuffleWrapper"](o, seed=3)
        elif spec[1] == "repeat2":
            w = L["RepeatWrapper"](o, repetitions=2)
        else:
            w = L["SubsetWrapper"](o, start_index=1)
        return w, [m[int(i)] for i in w.indices], (None if ch is None else [w] + ch), root
    if k == 'D':
        o, m, ch, root = build(spec[1], env)
        return L["KDConcatDataset"]([o, o]), m + m, None, None
    if k in 'CL':
        built = [build(c, env) for c in spec[1]]
        objs = [b[0] for b in built]
        if k == 'C':
            w = L["KDConcatDataset"](objs)
            m = [x for b in built for x in b[1]]
            if len(built) == 1:
                return w, m, built[0][2], built[0][3]
            return w, m, None, None
        w = L["KDConcatDataset"](objs, balanced_sampling=True)
        return w, ('bal', [b[1] for b in built]), None, None
    raise ValueError(spec)


def path(spec):
    k = spec[0]
    if k == 'B':
        return 'B'
    if k in 'CL':
        return k + '(' + ','.join(path(c) for c in spec[1]) + ')'
    if k == 'W':
        return f"W[{spec[1]}]>" + path(spec[2])
    return k + '>' + path(spec[1])


def kinds(spec):
    """coarse path: the sequence of node kinds top-down along the first branch (for signatures)."""
    k = spec[0]
    if k == 'B':
        return 'B'
    if k in 'CL':
        return k + str(len(spec[1])) + '>' + kinds(spec[1][0])
    if k == 'W':
        return 'W>' + kinds(spec[2])
    return k + '>' + kinds(spec[1])


OK_EXC = (AssertionError, NotImplementedError)


def check_spec(spec, bulk="list"):
    """Returns list of (signature, message) violations for one stack."""
    L = lib()
    out = []
    env = Env(bulk)
    try:
        obj, model, chain, root = build(spec, env)
    except Exception as e:
        return [(f"C02:construct:exception:{type(e).__name__}|top={spec[0]}", f"{path(spec)}: {e!r}")], None
    pk = kinds(spec)

    def bad(op, what, msg, neg=False):
        out.append((f"C02:{op}:{what}|path={pk}|negative_index={neg}|bulk={bulk}", f"stack {path(spec)}: {msg}"))

    if isinstance(model, tuple):  # balanced concat at the top (or under identity wrappers)
        parts = model[1]
        P = len(parts)
        for k in range(0, 3 * max(len(p) for p in parts)):
            exp = parts[k % P][(k // P) % len(parts[k % P])]
            try:
                got = obj.getitem_x(k)
            except Exception as e:
                bad("getitem_x", f"exception:{type(e).__name__}", f"k={k}: {e!r}")
                continue
            if got != exp:
                bad("getitem_x", "wrong_sample", f"balanced k={k}: expected {exp}, got {got}")
        return out, model
    n = len(model)
    try:
        ln = len(obj)
        if ln != n:
            bad("len", "wrong", f"len {ln} != {n}")
    except Exception as e:
        bad("len", f"exception:{type(e).__name__}", repr(e))
    clsof = {}
    for b in env.bases:
        for j, d in enumerate(b.data):
            clsof[d] = b.cls[j]
    for k in range(-n, n):
        for item in ("x", "class"):
            exp = model[k] if item == "x" else clsof[model[k]]
            try:
                got = getattr(obj, f"getitem_{item}")(k)
            except Exception as e:
                bad(f"getitem_{item}", f"exception:{type(e).__name__}", f"k={k}: {e!r}", k < 0)
                continue
            if got != exp:
                bad(f"getitem_{item}", "wrong_sample", f"k={k}: expected {exp}, got {got}", k < 0)
    # bulk accessors
    for item in ("x", "class"):
        exp = list(model) if item == "x" else [clsof[m] for m in model]
        try:
            got = getattr(obj, f"getall_{item}")()
            if len(got) > 4 * n + 8:
                bad(f"getall_{item}", "differs_from_per_sample", f"{len(got)} entries for a dataset of {n}")
                return out, model
            got = [tuple(g) if isinstance(g, (list, tuple)) else int(g) for g in got]
            if got != exp:
                bad(f"getall_{item}", "differs_from_per_sample", f"expected {exp}, got {got[:40]}")
                if bulk == "alias":
                    return out, model  # aliased storage may now be corrupted: further calls could grow without bound
        except OK_EXC:
            pass
        except Exception as e:
            bad(f"getall_{item}", f"exception:{type(e).__name__}", repr(e))
    # bulk accessors must not change anything: a second bulk call and the per-sample accessors afterwards agree with the model
    try:
        for item in ("x", "class"):
            exp2 = list(model) if item == "x" else [clsof[m] for m in model]
            for rep in (1, 2):
                try:
                    got = getattr(obj, f"getall_{item}")()
                except OK_EXC:
                    break
                if len(got) > 4 * n + 8:
                    bad(f"getall_{item}", "repeated_bulk_call_differs", f"call {rep + 1}: {len(got)} entries for a dataset of {n}")
                    return out, model  # the stack keeps growing - stop touching it
                got = [tuple(g) if isinstance(g, (list, tuple)) else int(g) for g in got]
                if got != exp2:
                    bad(f"getall_{item}", "repeated_bulk_call_differs", f"call {rep + 1}: expected {exp2}, got {got[:40]}")
                    return out, model
        if len(obj) != n:
            bad("len", "changed_after_bulk_access", f"len {len(obj)} != {n}")
        for k in range(-n, n):
            if obj.getitem_x(k) != model[k] or obj.getitem_class(k) != clsof[model[k]]:
                bad("getitem_x", "changed_after_bulk_access", f"k={k}: {obj.getitem_x(k)} / {obj.getitem_class(k)}", k < 0)
                break
        for b in env.bases:
            if b.data != [(b.tag, j) for j in range(b.n)] or len(b.cls) != b.n:
                bad("getall", "mutates_the_underlying_dataset", f"base {b.tag} now holds {b.data} / {b.cls}")
                break
    except Exception as e:
        bad("getall", f"exception_on_repeated_access:{type(e).__name__}", repr(e))
    exp = [clsof[m] for m in model]
    gat = L["gat"]
    for fn in ("getall", "getall_as_list", "getall_as_numpy", "getall_as_tensor"):
        if n == 0 and fn in ("getall_as_numpy",):
            pass
        try:
            got = getattr(gat, fn)(obj, "class")
            got = [int(g) for g in (got.tolist() if hasattr(got, "tolist") else got)]
            if got != exp:
                bad(f"util.{fn}", "differs_from_per_sample", f"expected {exp}, got {got}")
        except OK_EXC:
            pass
        except Exception as e:
            bad(f"util.{fn}", f"exception:{type(e).__name__}", repr(e))
        try:
            got = getattr(gat, fn)(obj, "score")
            got = [float(g) for g in (got.tolist() if hasattr(got, "tolist") else got)]
            if got != [e + 0.25 for e in exp]:
                bad(f"util.{fn}", "float_item_differs_from_per_sample", f"expected {[e + 0.25 for e in exp]}, got {got}")
        except OK_EXC:
            pass
        except Exception as e:
            bad(f"util.{fn}", f"float_item_exception:{type(e).__name__}", repr(e))
    # introspection through linear chains
    if chain is not None:
        try:
            if obj.root_dataset is not root:
                bad("root_dataset", "wrong", f"{obj.root_dataset!r}")
            aw = obj.all_wrappers if chain or not isinstance(obj, L["Base"]) else []
            if len(aw) != len(chain) or any(a is not b for a, b in zip(aw, chain)):
                bad("all_wrappers", "wrong", f"expected {[type(c).__name__ for c in chain]} got {[type(c).__name__ for c in aw]}")
            awt = obj.all_wrapper_types
            if awt != [type(c) for c in chain]:
                bad("all_wrapper_types", "wrong", f"{awt}")
            foreign = L["Foreign"](root)
            for w in chain:
                if not obj.has_wrapper(w):
                    bad("has_wrapper", "member_not_found", type(w).__name__)
                if not obj.has_wrapper_type(type(w)):
                    bad("has_wrapper_type", "member_type_not_found", type(w).__name__)
            if obj.has_wrapper(foreign):
                bad("has_wrapper", "foreign_found", "")
            if obj.has_wrapper_type(L["Foreign"]):
                bad("has_wrapper_type", "foreign_type_found", "")
            for T in {type(c) for c in chain} | {L["Foreign"]}:
                expw = [c for c in chain if type(c) == T]
                gotw = obj.get_wrappers_of_type(T)
                if len(gotw) != len(expw) or any(a is not b for a, b in zip(gotw, expw)):
                    bad("get_wrappers_of_type", "wrong", T.__name__)
                if len(expw) <= 1:
                    g1 = obj.get_wrapper_of_type(T)
                    if (g1 is not (expw[0] if expw else None)):
                        bad("get_wrapper_of_type", "wrong", T.__name__)
            if obj.marker != root.marker:
                bad("attribute_delegation", "wrong", f"{obj.marker}")
            try:
                if obj._split != root._split or not hasattr(obj, "_split") or getattr(obj, "_split", None) != root._split:
                    bad("attribute_delegation", "private_attribute_wrong", f"{getattr(obj, '_split', None)}")
            except AttributeError as e:
                bad("attribute_delegation", "private_attribute_not_resolved", repr(e))
            if obj.getshape_class() != (3,) or obj.getdim_class() != 3 or obj.getshape("class") != (3,) \
                    or obj.getdim("class") != 3:
                bad("getshape", "wrong", "")
            for nm, dim in (("target", 7), ("timestep", 1000), ("step", 5), ("mask", 11), ("edge_attr", 13), ("attr", 17), ("x", 19)):
                try:
                    got4 = (getattr(obj, f"getshape_{nm}")(), getattr(obj, f"getdim_{nm}")(), obj.getshape(nm), obj.getdim(nm))
                except Exception as e:
                    bad("getshape", f"item_name_not_resolved:{type(e).__name__}", f"{nm}: {e!r}")
                    break
                if got4 != ((dim,), dim, (dim,), dim):
                    bad("getshape", "wrong_for_item_name", f"{nm}: {got4}, expected dim {dim}")
                    break
            obj.dispose()
            if root.disposed != 1:
                bad("dispose", "root_not_reached", f"disposed={root.disposed}")
            with obj:
                pass
            if root.disposed != 2:
                bad("dispose", "with_block_root_not_reached", f"disposed={root.disposed}")
        except Exception as e:
            bad("introspection", f"exception:{type(e).__name__}", repr(e))
    return out, model


def task(args):
    k, lo, hi, maxfull, bulks = args
    p = Partial()
    specs = stacks(k, maxfull)[lo:hi]
    for spec in specs:
        for bulk in bulks:
            viol, model = check_spec(spec, bulk)
            p.evaluations += 1
            for sig, msg in viol:
                p.violation(sig, dict(spec=spec, bulk=bulk), msg)
            if not viol and model and (isinstance(model, tuple) or len(model) > 0):
                p.observe((spec, bulk))
    if specs:
        p.sample(dict(spec=path(specs[len(specs) // 2])))
    return p


def run(run):
    K = 4 if run.tier == "quick" else 5
    maxfull = 3 if run.tier == "quick" else 4
    tasks = []
    total = 0
    for k in range(1, K + 1):
        n = len(stacks(k, maxfull))
        total += n
        step = max(200, n // 64)
        for lo in range(0, n, step):
            tasks.append((k, lo, min(n, lo + step), maxfull, ("list", "alias") if k > 3 else ("list", "alias", "tensor", "numpy")))
    run.pmap(task, tasks)
    run.extra.update(bounds=dict(max_nodes=K, base_sizes="0..3", sub_menu_full_up_to_nodes=maxfull),
                     stacks=total)
    run.assumptions += [
        "root datasets have Python list semantics for negative indices",
        "introspection is only claimed (and checked) through linear chains; single-part concats are transparent",
        "AssertionError/NotImplementedError from a bulk accessor is an explicit 'not available', not a disagreement",
    ]


def _tuplify(x):
    return tuple(_tuplify(i) for i in x) if isinstance(x, list) else x


def replay(case):
    viol, _ = check_spec(_tuplify(case["spec"]), case.get("bulk", "list"))
    return None if not viol else "; ".join(m for _, m in viol[:3])
