"""C17 - mask collators emit well-formed, budget-respecting, non-overlapping masks (E1 deviation-bounded + seed sweep)."""
import itertools
import math

from ..core.choice_rng import ChoiceRng
from ..core.explorer import NOT_REPRODUCIBLE, Chooser, explore
from ..core.runner import Partial

LEVEL = "exploration"
RULE = ("DINO: grids 3x3..6x6 x ratio ranges x mask_prob x views x batch sizes x min patches; I-JEPA: grids 4x4..8x8 x scale/aspect "
        "menus restricted to the stated domain x n_enc 1..2 x n_pred 1..3 x min_keep 0..3 x tries=1 x steps 0..3; the collator's "
        "generator is ChoiceRng: all executions with <= d non-default answers (capped per configuration, cap reported) plus real "
        "generators with seeds 0..15; oracles from the statement (mask count/ratio budget, boolean grid shape; index tensors in "
        "range / sorted / unique, predictor rectangles of one size, encoder-predictor disjointness in the stated domain, common "
        "lengths, block sizes a function of the step only, batch passes through); distinct = distinct emitted mask sets")


# ------------------------------------------------------------------------------- DINO

def dino_configs(tier):
    grids = [(3, 3), (4, 4), (6, 6)] if tier == "quick" else [(3, 3), (4, 4), (4, 6), (5, 5), (6, 6)]
    out = []
    for g in grids:
        # the last two: upper ratio x grid below min_num_patches (masks must then stay that small, or empty)
        for ratio in ((0.1, 0.5), (0.2, 0.8), (0.02, 0.1), (0.05, 0.2)):
            for prob in (0.25, 0.5, 1.0):
                for V in (1, 2):
                    for B in ((1, 2, 4) if tier == "quick" else (1, 2, 3, 4)):
                        for mnp in ((1, 4) if tier == "quick" else (1, 2, 4)):
                            out.append(dict(grid=g, ratio=ratio, prob=prob, V=V, B=B, min_patches=mnp))
    return out


def dino_make(cfg, rng):
    from kappadata.collators.kd_dino_mask_collator import KDDinoMaskCollator
    col = KDDinoMaskCollator(mask_ratio=cfg["ratio"], mask_prob=cfg["prob"], mask_size=cfg["grid"], num_views=cfg["V"],
                             min_num_patches=cfg["min_patches"], dataset_mode="x", return_ctx=True)
    col.set_rng(rng)
    return col


def tensors_of(obj, out=None):
    import torch
    out = [] if out is None else out
    if torch.is_tensor(obj):
        out.append(obj)
    elif isinstance(obj, dict):
        for v in obj.values():
            tensors_of(v, out)
    elif isinstance(obj, (list, tuple)):
        for v in obj:
            tensors_of(v, out)
    return out


class Handed:
    """What a call handed out (batch + ctx): must still be what it was after the collator served the next batch."""

    def __init__(self):
        self.kept = []

    def keep(self, *objs):
        self.kept = [(t, t.clone()) for t in tensors_of(objs)]

    def changed(self):
        import torch
        return any(t.shape != c.shape or not torch.equal(t, c) for t, c in self.kept)


LAST = [None]  # (out, ctx) of the most recent dino_call


def dino_call(col, cfg, B):
    """One collate call of batch size B on the (possibly already used) collator; returns (kind, info) like dino_run."""
    import torch
    V = cfg["V"]
    if V == 1:
        batch = [(torch.full((2,), float(i)), {"pre": float(i)}) for i in range(B)]
    else:
        batch = [([torch.full((2,), float(i + 10 * v)) for v in range(V)], {"pre": float(i)}) for i in range(B)]
    try:
        out, ctx = col(batch)
    except Exception as e:
        return f"exception:{type(e).__name__}", repr(e)
    LAST[0] = (out, ctx)
    H, W = cfg["grid"]
    try:
        m = ctx.get("mask")
        if m is None or tuple(m.shape) != (B * V, H, W) or m.dtype != torch.bool:
            return "mask_shape_or_dtype", f"{None if m is None else (tuple(m.shape), m.dtype)}"
    except Exception as e:
        return f"output_malformed:{type(e).__name__}", repr(e)
    counts = [int(x.sum()) for x in m]
    nonempty = sum(1 for c in counts if c > 0)
    budget = int(math.floor(B * V * cfg["prob"] + 1e-9))
    if nonempty > budget:
        return "too_many_masked_view_samples", f"{nonempty} non-empty masks, budget floor({B}*{V}*{cfg['prob']}) = {budget}"
    if any(c > cfg["ratio"][1] * H * W + 1e-9 for c in counts):
        return "mask_exceeds_upper_ratio", f"counts {counts}, upper ratio {cfg['ratio'][1]} of {H * W}"
    if V == 1:
        ok = torch.equal(out, torch.stack([torch.full((2,), float(i)) for i in range(B)]))
    else:
        ok = isinstance(out, list) and len(out) == V and all(
            torch.equal(out[v], torch.stack([torch.full((2,), float(i + 10 * v)) for i in range(B)])) for v in range(V))
    if not ok or ctx["pre"].tolist() != [float(i) for i in range(B)]:
        return "batch_not_passed_through", repr(out)
    return None, tuple(counts)


def dino_run(cfg, rng):
    return dino_call(dino_make(cfg, rng), cfg, cfg["B"])


BATCH_SEQUENCES = ((4, 2), (2, 4, 1), (3, 1, 3), (4, 4, 3), (2, 2, 2))


def dino_sequence(cfg, rng, seq):
    """The same collator object used for batches of different sizes (e.g. the short last batch of an epoch)."""
    col = dino_make(cfg, rng)
    obs = []
    handed = Handed()
    for k, B in enumerate(seq):
        kind, info = dino_call(col, cfg, B)
        if kind:
            return kind + "|after_other_batch_sizes", f"call {k} of batch sizes {seq}: {info}"
        if handed.changed():
            return "returned_masks_changed_by_next_call", f"call {k} of batch sizes {seq} overwrote what call {k - 1} returned"
        handed.keep(*LAST[0])
        obs.append(info)
    return None, tuple(obs)


# ------------------------------------------------------------------------------- I-JEPA

def ijepa_configs(tier):
    # (rows, cols): square, portrait and landscape patch grids
    grids = [(4, 4), (6, 6), (8, 4), (4, 8)] if tier == "quick" else [(4, 4), (5, 5), (6, 6), (8, 8), (8, 4), (4, 8), (6, 4), (5, 7)]
    # the last menu has an encoder block only slightly larger than a predictor block: an encoder mask (block minus the
    # predictor blocks) can then be SHORTER than a predictor mask
    menus = [((0.85, 1.0), (0.15, 0.2), (0.75, 1.5)), ((0.6, 0.8), (0.1, 0.15), (1.0, 1.0)), ((0.9, 1.0), (0.05, 0.1), (0.5, 2.0))]
    out = []
    for g in grids:
        for enc, pred, ar in menus:
            for n_enc in (1, 2):
                for n_pred in ((1, 2, 3) if tier != "quick" else (1, 3)):
                    for mk in ((0, 2) if tier == "quick" else (0, 1, 2, 3)):
                        for B in (1, 2):
                            out.append(dict(g=g, enc=enc, pred=pred, ar=ar, n_enc=n_enc, n_pred=n_pred, min_keep=mk, B=B))
    # an encoder block only slightly larger than the predictor block (larger grids so that the blocks do not saturate):
    # the encoder mask (block minus predictor blocks) can then be SHORTER than a predictor mask - still inside the stated domain
    for g in ((10, 10), (12, 9)):
        for enc, pred in (((0.3, 0.3), (0.2, 0.2)), ((0.35, 0.4), (0.2, 0.25))):
            for n_enc in (1, 2):
                for mk in (0, 2):
                    for B in (1, 2, 3):
                        out.append(dict(g=g, enc=enc, pred=pred, ar=(1.0, 1.0), n_enc=n_enc, n_pred=1, min_keep=mk, B=B))
    return out


def make_ijepa(cfg):
    from kappadata.collators.kd_ijepa_mask_collator import KDIjepaMaskCollator
    # the patch grid is what matters; it is reached through square (int), wide and tall patches
    ph, pw = ((2, 2), (2, 3), (3, 1), (1, 4))[(cfg["g"][0] + cfg["n_enc"] + cfg["n_pred"] + cfg["B"] + cfg["min_keep"]) % 4]
    return KDIjepaMaskCollator(input_size=(cfg["g"][0] * ph, cfg["g"][1] * pw), patch_size=2 if (ph, pw) == (2, 2) else (ph, pw),
                               encoder_mask_scale=cfg["enc"],
                               predictor_mask_scale=cfg["pred"], predictor_aspect_ratio=cfg["ar"], num_enc_masks=cfg["n_enc"],
                               num_pred_masks=cfg["n_pred"], min_keep=cfg["min_keep"], tries=1, dataset_mode="x", return_ctx=True)


def block_sizes(cfg, step):
    """The sizes the configured scales give at a step (the collator's own size sampling is a function of the step only)."""
    import torch
    col = make_ijepa(cfg)
    gen = torch.Generator().manual_seed(step)
    p = col._sample_block_size(generator=gen, scale=col.predictor_mask_scale, aspect_ratio_range=col.predictor_aspect_ratio)
    e = col._sample_block_size(generator=gen, scale=col.encoder_mask_scale, aspect_ratio_range=(1., 1.))
    return p, e


def in_domain(cfg, steps=4):
    """Stated domain: smallest encoder block - n_pred * largest predictor block > min_keep, blocks fit the grid."""
    sizes = [block_sizes(cfg, s) for s in range(steps)]
    if any(ph < 1 or pw < 1 or eh < 1 or ew < 1 for (ph, pw), (eh, ew) in sizes):
        return False
    min_enc = min(eh * ew for _, (eh, ew) in sizes)
    max_pred = max(ph * pw for (ph, pw), _ in sizes)
    return min_enc - cfg["n_pred"] * max_pred > cfg["min_keep"]


def rect_of(idx, g):
    """(top, left, h, w) if the index set is a full non-empty rectangle of the (rows, cols) grid g, else None."""
    if not idx:
        return None
    rows = sorted({i // g[1] for i in idx})
    cols = sorted({i % g[1] for i in idx})
    if rows != list(range(rows[0], rows[-1] + 1)) or cols != list(range(cols[0], cols[-1] + 1)):
        return None
    if len(idx) != len(rows) * len(cols):
        return None
    return rows[0], cols[0], len(rows), len(cols)


def ijepa_collate(col, cfg, rng):
    import torch
    col.set_rng(rng)
    B = cfg["B"]
    batch = [(torch.full((2,), float(i)), {"pre": float(i)}) for i in range(B)]
    return col(batch)


def ijepa_check(cfg, out, ctx, step):
    import torch
    g, B = cfg["g"], cfg["B"]
    e, pm = ctx.get("encoder_masks"), ctx.get("predictor_masks")
    if e is None or pm is None or e.ndim != 2 or pm.ndim != 2 or e.shape[0] != cfg["n_enc"] * B or pm.shape[0] != cfg["n_pred"] * B:
        return "mask_tensor_shape", f"{None if e is None else tuple(e.shape)} / {None if pm is None else tuple(pm.shape)}", None
    for name, t in (("encoder", e), ("predictor", pm)):
        for row in t.tolist():
            if any(i < 0 or i >= g[0] * g[1] for i in row):
                return f"{name}_index_out_of_range", f"{row}", None
            if row != sorted(row) or len(set(row)) != len(row):
                return f"{name}_indices_not_sorted_unique", f"{row}", None
    rects = [rect_of(r, g) for r in pm.tolist()]
    if any(r is None for r in rects):
        return "predictor_mask_not_a_rectangle", f"{pm.tolist()}", None
    if len({(r[2], r[3]) for r in rects}) != 1:
        return "predictor_masks_differ_in_size", f"{[(r[2], r[3]) for r in rects]}", None
    (ph, pw), (eh, ew) = block_sizes(cfg, step)
    if eh * ew - cfg["n_pred"] * ph * pw > cfg["min_keep"]:
        for b in range(B):
            pred_b = set()
            for k in range(cfg["n_pred"]):
                pred_b |= set(pm[k * B + b].tolist())
            for k in range(cfg["n_enc"]):
                inter = pred_b & set(e[k * B + b].tolist())
                if inter:
                    return "encoder_mask_intersects_predictor_mask", f"sample {b}: encoder mask {k} shares patches {sorted(inter)}", None
    if not torch.equal(out, torch.stack([torch.full((2,), float(i)) for i in range(B)])) or \
            ctx["pre"].tolist() != [float(i) for i in range(B)]:
        return "batch_not_passed_through", repr(out), None
    return None, None, (rects[0][2], rects[0][3], e.shape[1])


def ijepa_body(cfg, steps):
    def body(ch):
        col = make_ijepa(cfg)
        obs = []
        for step in range(steps):
            try:
                out, ctx = ijepa_collate(col, cfg, ChoiceRng(ch, int_full=8))
            except Exception as e:
                return f"exception:{type(e).__name__}", f"step {step}: {e!r}"
            try:
                kind, info, o = ijepa_check(cfg, out, ctx, step)
            except Exception as e:
                kind, info, o = f"output_malformed:{type(e).__name__}", repr(e), None
            if kind:
                return kind, f"step {step}: {info}"
            obs.append(o)
        return None, tuple(obs)
    return body


def ijepa_seeded(cfg, p):
    """Real generators (seeds 0..15), steps 0..3; two collators with different generators must agree on block sizes per step."""
    import numpy as np
    case = dict(collator="ijepa", cfg=cfg, seeded=True)
    sizes_by_step = {}
    for seed in range(16):
        col = make_ijepa(cfg)
        rng = np.random.default_rng(seed)
        handed = Handed()
        for step in range(4):
            p.evaluations += 1
            try:
                out, ctx = ijepa_collate(col, cfg, rng)
            except Exception as e:
                p.violation(f"C17:ijepa:exception:{type(e).__name__}|min_keep={'0' if cfg['min_keep'] == 0 else '>0'}", dict(case, seed=seed, step=step),
                            f"{cfg} seed {seed} step {step}: {e!r}")
                break
            if handed.changed():
                p.violation("C17:ijepa:returned_masks_changed_by_next_call", dict(case, seed=seed, step=step),
                            f"{cfg} seed {seed}: the call of step {step} overwrote the masks returned at step {step - 1}")
                break
            handed.keep(out, ctx)
            try:
                kind, info, o = ijepa_check(cfg, out, ctx, step)
            except Exception as e:
                kind, info, o = f"output_malformed:{type(e).__name__}", repr(e), None
            if kind:
                p.violation(f"C17:ijepa:{kind}", dict(case, seed=seed, step=step), f"{cfg} seed {seed} step {step}: {info}")
                break
            if step in sizes_by_step and sizes_by_step[step] != o[:2]:
                p.violation("C17:ijepa:block_size_depends_on_more_than_the_step", dict(case, seed=seed, step=step),
                            f"{cfg}: step {step} predictor block {o[:2]} vs {sizes_by_step[step]} with another generator")
            sizes_by_step.setdefault(step, o[:2])
            p.observe(("ijepa", repr(sorted(cfg.items())), step, o))


def dino_seeded(cfg, p):
    import numpy as np
    if cfg["B"] == 2:
        for seq in BATCH_SEQUENCES:
            for seed in range(4):
                p.evaluations += 1
                kind, info = dino_sequence(cfg, np.random.default_rng(seed), seq)
                if kind:
                    p.violation(f"C17:dino:{kind}|views={cfg['V']}", dict(collator="dino", cfg=cfg, seed=seed, seeded=True, seq=list(seq)),
                                f"{cfg} seed {seed}: {info}")
                else:
                    p.observe(("dino_seq", repr(sorted(cfg.items())), seq, info))
            for ch, res in explore(lambda c: dino_sequence(cfg, ChoiceRng(c, frac=(0.0, 0.5, 1 - 1e-9), int_full=6), seq), diverged=lambda msg: (NOT_REPRODUCIBLE, msg),
                                   max_dev=1, cap=60):
                if ch is None:
                    break
                kind, info = res
                p.evaluations += 1
                if kind:
                    p.violation(f"C17:dino:{kind}|views={cfg['V']}", dict(collator="dino", cfg=cfg, choices=ch.choices, seq=list(seq)),
                                f"{cfg}: {info}")
    for seed in range(16):
        p.evaluations += 1
        kind, info = dino_run(cfg, np.random.default_rng(seed))
        if kind:
            p.violation(f"C17:dino:{kind}|views={cfg['V']}", dict(collator="dino", cfg=cfg, seed=seed, seeded=True), f"{cfg} seed {seed}: {info}")
        else:
            p.observe(("dino", repr(sorted(cfg.items())), info))


def task(args):
    what, cfgs, max_dev, cap = args
    p = Partial()
    for cfg in cfgs:
        if what == "dino":
            body = lambda ch: dino_run(cfg, ChoiceRng(ch, frac=(0.0, 0.5, 1 - 1e-9), int_full=6))
        else:
            if not in_domain(cfg):
                p.count("ijepa_configs_outside_stated_domain")
                continue
            body = ijepa_body(cfg, 2)
        n = 0
        for ch, res in explore(body, max_dev=max_dev, cap=cap, diverged=lambda msg: (NOT_REPRODUCIBLE, msg)):
            if ch is None:
                p.count("configs_capped")
                break
            n += 1
            p.evaluations += 1
            kind, info = res
            if kind:
                extra = f"|views={cfg['V']}" if what == "dino" else (f"|min_keep={'0' if cfg['min_keep'] == 0 else '>0'}" if "exception" in kind else "")
                p.violation(f"C17:{what}:{kind}{extra}", dict(collator=what, cfg=cfg, choices=ch.choices), f"{cfg}: {info}")
            else:
                p.observe((what, repr(sorted(cfg.items())), info))
        p.count(f"{what}_configs")
        if what == "dino":
            dino_seeded(cfg, p)
        else:
            ijepa_seeded(cfg, p)
    p.sample(dict(collator=what, cfg=cfgs[0]))
    return p


def run(run):
    max_dev = 1 if run.tier == "quick" else 2
    cap = 400 if run.tier == "quick" else 3000
    d = dino_configs(run.tier)
    j = ijepa_configs(run.tier)
    k = run.seed % 5
    d, j = d[k:] + d[:k], j[k:] + j[:k]
    tasks = [("dino", d[i:i + 6], max_dev, cap) for i in range(0, len(d), 6)]
    tasks += [("ijepa", j[i:i + 6], max_dev, cap) for i in range(0, len(j), 6)]
    run.pmap(task, tasks)
    run.exhaustive = run.counters.get("configs_capped", 0) == 0
    run.extra.update(bounds=dict(deviation_bound=max_dev, execution_cap_per_config=cap, real_seeds="0..15", ijepa_steps="0..3 (seeded), 0..1 (ChoiceRng)"),
                     dino_configs=len(d), ijepa_configs=len(j))
    run.assumptions += [
        "I-JEPA disjointness is claimed only where (encoder block area) - n_pred x (predictor block area) > min_keep at that step",
        "I-JEPA configurations outside the stated domain (blocks of size 0, or the inequality failing at some step 0..3) are skipped and counted",
        "when a per-configuration execution cap is hit the run is not called exhaustive (counter configs_capped)",
    ]


def replay(case):
    import numpy as np
    cfg = case["cfg"]
    for k in ("grid", "ratio", "enc", "pred", "ar"):
        if k in cfg:
            cfg[k] = tuple(cfg[k])
    p = Partial()
    if case.get("seeded"):
        (dino_seeded if case["collator"] == "dino" else ijepa_seeded)(cfg, p)
        return None if not p.violations else "; ".join(m for _, m in list(p.violations.values())[:3])
    ch = Chooser(tuple(case["choices"]))
    if case["collator"] == "dino" and case.get("seq"):
        kind, info = dino_sequence(cfg, ChoiceRng(ch, frac=(0.0, 0.5, 1 - 1e-9), int_full=6), tuple(case["seq"]))
    elif case["collator"] == "dino":
        kind, info = dino_run(cfg, ChoiceRng(ch, frac=(0.0, 0.5, 1 - 1e-9), int_full=6))
    else:
        kind, info = ijepa_body(cfg, 2)(ch)
    return None if kind is None else f"{kind}: {info}"
