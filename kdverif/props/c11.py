"""C11 - sample-level mix returns a convex combination with matching label weights (E1 with module shim + seed sweep)."""
import itertools

from ..core.choice_rng import ChoiceRng
from ..core.explorer import NOT_REPRODUCIBLE, explore, Chooser
from ..core.runner import Partial

LEVEL = "exploration"
RULE = ("datasets of 2..4 id-coded samples x class counts 2..4 x shape profiles (equal, differing with pad_or_cut_end) x "
        "probabilities {0.3, 1} x alphas x every index x modes (x class | class x | x | class | index x class); the wrapper's "
        "per-sample generator is replaced (module shim) by ChoiceRng and the full product of its answers (apply draw, partner, "
        "beta weight) is enumerated; partner/weight are recovered from the outputs by search over all partners; plus real "
        "seeded generators (seeds 0..7) for the agreement of image-only / label-only / joint requests; distinct = distinct "
        "(configuration, decoded partner, weight) outcomes")

UNIT = (0.0, 0.29, 0.31, 1 - 1e-9)
BETA = (0.5, 0.02, 0.25, 0.98, 1.0, 0.0)  # a beta draw is exactly 1.0 / 0.0 for small alphas (float64 saturation)
TOL = 1e-5

SHAPES = {
    "equal_vec": [(3,), (3,), (3,), (3,)],
    "equal_img": [(1, 2, 2)] * 4,
    "differ": [(1, 2, 3), (1, 3, 2), (1, 2, 2), (2, 2, 2)],
    "differ2": [(1, 3, 2), (1, 2, 3), (2, 2, 2), (1, 2, 2)],
}


class NpProxy:
    """Stands in for the module-global `np` of kd_mix_wrapper: default_rng() answers with the harness generator."""

    def __init__(self, real, factory):
        self._real = real
        self.random = _RandomProxy(real.random, factory)

    def __getattr__(self, name):
        return getattr(self._real, name)


class _RandomProxy:
    def __init__(self, real, factory):
        self._real = real
        self._factory = factory

    def default_rng(self, seed=None):
        return self._factory(seed)

    def __getattr__(self, name):
        return getattr(self._real, name)


def soft_label(idx, n_classes):
    import torch
    v = torch.full((n_classes,), 0.2 / max(1, n_classes - 1))
    v[int(idx) % n_classes] = 0.8
    return v if n_classes > 1 else torch.ones(1)


XDTYPE = [None]  # None: float32 samples; "uint8" / "int64" / "bool": raw integer samples (images before conversion, token ids)


def make_dataset(n, n_classes, shapes, soft=False, stored=False):
    """stored=True: an in-memory dataset - the same tensor objects are handed out on every request"""
    import torch
    from kappadata.datasets.kd_dataset import KDDataset
    d = _make_dataset(n, n_classes, shapes, soft)
    if not stored:
        return d
    cls = type(d)
    memo = {}
    fx, fc = cls.getitem_x, cls.getitem_class

    def getitem_x(self, idx, ctx=None):
        k = ("x", int(idx))
        if k not in memo:
            memo[k] = fx(self, idx, ctx)
        return memo[k]

    def getitem_class(self, idx, ctx=None):
        k = ("c", int(idx))
        if k not in memo:
            memo[k] = fc(self, idx, ctx)
        return memo[k]

    cls.getitem_x, cls.getitem_class = getitem_x, getitem_class
    return d


def _make_dataset(n, n_classes, shapes, soft=False):
    import torch
    from kappadata.datasets.kd_dataset import KDDataset

    class DS(KDDataset):
        def __len__(self):
            return n

        def getitem_x(self, idx, ctx=None):
            idx = int(idx)
            shp = shapes[idx]
            numel = 1
            for s in shp:
                numel *= s
            if XDTYPE[0] == "uint8":
                return ((torch.arange(numel) % 11) + 1 + 37 * idx).view(*shp).to(torch.uint8)
            if XDTYPE[0] == "int64":
                return ((torch.arange(numel) + 1) * (7 ** (idx + 1))).view(*shp)
            return (torch.arange(numel, dtype=torch.float32).view(*shp) + 1.0) * (7.0 ** (idx + 1))

        def getitem_class(self, idx, ctx=None):
            if soft:
                return soft_label(idx, n_classes)  # e.g. a label-smoothing wrapper below the mix wrapper
            return int(idx) % n_classes

        def getshape_class(self):
            return (n_classes,)

    d = DS()
    d.soft = soft
    return d


def padcut(x2, shape):
    import torch
    out = torch.zeros(shape)
    sl = tuple(slice(0, min(a, b)) for a, b in zip(shape, x2.shape))
    out[sl] = x2[sl]
    return out


def explain(ds, i, x_out, y_out, n_classes, unify):
    """All (j, w) explaining (x_out, y_out) as a convex combination; 'untouched' if equal to sample i itself."""
    import torch
    xi = ds.getitem_x(i).float()
    x_out = x_out.float()  # an untouched integer sample comes back in its own dtype
    ci = ds.getitem_class(i)
    if tuple(x_out.shape) != tuple(xi.shape):
        return None, f"output shape {tuple(x_out.shape)} != shape of sample i {tuple(xi.shape)}"
    if y_out.ndim != 1 or y_out.shape[0] != n_classes:
        return None, f"label shape {tuple(y_out.shape)}"
    if float(y_out.min()) < -1e-7 or abs(float(y_out.sum()) - 1) > 1e-5:
        return None, f"label {y_out.tolist()} not non-negative with sum one"
    def vec(c):
        if torch.is_tensor(c):
            return c.clone().float()
        v = torch.zeros(n_classes)
        v[c] = 1
        return v
    ei = vec(ci)
    sols = []
    if torch.allclose(x_out, xi, rtol=0, atol=TOL * float(xi.abs().max())) and torch.allclose(y_out, ei, atol=TOL):
        sols.append(("untouched", None, 1.0))
    for j in range(len(ds)):
        xj = ds.getitem_x(j).float()
        if tuple(xj.shape) != tuple(xi.shape):
            if not unify:
                continue
            xj = padcut(xj, tuple(xi.shape))
        d = xi - xj
        k = int(d.abs().argmax())
        if float(d.flatten()[k].abs()) < 1e-9:
            continue
        w = float((x_out.flatten()[k] - xj.flatten()[k]) / d.flatten()[k])
        if w < -1e-6 or w > 1 + 1e-6:
            continue
        scale = max(float(xi.abs().max()), float(xj.abs().max()))
        if not torch.allclose(x_out, w * xi + (1 - w) * xj, rtol=0, atol=TOL * scale):
            continue
        ej = vec(ds.getitem_class(j))
        if torch.allclose(y_out, w * ei + (1 - w) * ej, atol=1e-4):
            sols.append(("mixed", j, round(w, 4)))
        else:
            sols.append(("image_only_match", j, round(w, 4)))
    return sols, None


def run_one(cfg, i, mode, chooser):
    import numpy as real_np
    import torch
    import kappadata.wrappers.sample_wrappers.kd_mix_wrapper as mod
    from kappadata.wrappers.mode_wrapper import ModeWrapper
    n, n_classes, shape_name, p, alpha = cfg[:5]
    soft = len(cfg) > 5 and cfg[5]
    shapes = SHAPES[shape_name]
    unify = shape_name.startswith("differ")
    ds = make_dataset(n, n_classes, shapes, soft)
    rngs = []

    def factory(seed):
        r = ChoiceRng(chooser, unit=UNIT, beta=BETA, int_full=8)
        r.seed = seed
        rngs.append(r)
        return r

    saved = mod.np
    mod.np = NpProxy(real_np, factory)
    try:
        w = mod.KDMixWrapper(ds, mixup_p=p, mixup_alpha=alpha, mixup_unify_shapes_mode="pad_or_cut_end" if unify else None,
                             seed=11)
        res = ModeWrapper(w, mode=mode, return_ctx=False)[i]
    except Exception as e:
        return f"exception:{type(e).__name__}", repr(e)
    finally:
        mod.np = saved
    items = mode.split(" ")
    vals = dict(zip(items, res if len(items) > 1 else (res,)))
    if "index" in vals and vals["index"] != i:
        return "index_changed", repr(vals["index"])
    if "x" in vals and "class" in vals:
        sols, err = explain(ds, i, vals["x"], vals["class"], n_classes, unify)
        if err:
            return "malformed", err
        good = [s for s in sols if s[0] in ("untouched", "mixed")]
        if not good:
            return ("label_not_mixed_like_image" if sols else "not_a_convex_combination_of_two_samples",
                    f"x={vals['x'].flatten().tolist()} y={vals['class'].tolist()} image explanations {sols}")
        # probability one mixes every sample: when the harness answered with a partner != i the result must differ from x_i
        if p == 1.0:
            part = [v for lab, v in rngs[0].log if lab.startswith("integers")] if rngs else []
            if part and part[0] != i and all(g[0] == "untouched" for g in good):
                return "probability_one_did_not_mix", f"partner answer {part[0]}"
        return None, good[0]
    if "class" in vals:
        y = vals["class"]
        if y.ndim != 1 or float(y.min()) < -1e-7 or abs(float(y.sum()) - 1) > 1e-5:
            return "malformed", f"label {y.tolist()}"
        return None, ("label_only", tuple(round(float(v), 4) for v in y))
    if "x" in vals:
        if tuple(vals["x"].shape) != tuple(ds.getitem_x(i).shape):
            return "malformed", f"shape {tuple(vals['x'].shape)}"
        return None, ("image_only",)
    return None, ("none",)


def seeded_agreement(cfg, p):
    """Real NumPy generators: image-only, label-only and joint requests for the same i describe the same draw."""
    import torch
    from kappadata.wrappers.sample_wrappers.kd_mix_wrapper import KDMixWrapper
    from kappadata.wrappers.mode_wrapper import ModeWrapper
    n, n_classes, shape_name, prob, alpha = cfg[:5]
    soft = len(cfg) > 5 and cfg[5]
    unify = shape_name.startswith("differ")
    for seed, stored in [(sd, False) for sd in range(8)] + [(sd, True) for sd in range(3)]:
        def mk():
            return KDMixWrapper(make_dataset(n, n_classes, SHAPES[shape_name], soft, stored), mixup_p=prob, mixup_alpha=alpha,
                                mixup_unify_shapes_mode="pad_or_cut_end" if unify else None, seed=seed)
        for i in range(n):
            p.evaluations += 1
            try:
                xj, yj = ModeWrapper(mk(), mode="x class")[i]
                yj2, xj2 = ModeWrapper(mk(), mode="class x")[i]
                x = ModeWrapper(mk(), mode="x")[i]
                y = ModeWrapper(mk(), mode="class")[i]
                w = mk()
                mw = ModeWrapper(w, mode="x class")
                a1 = mw[i]
                _ = mw[(i + 1) % n]
                a2 = mw[i]
            except Exception as e:
                p.violation(f"C11:seeded:exception:{type(e).__name__}", dict(cfg=cfg, seed=seed, i=i, seeded=True), repr(e))
                continue
            ok = (torch.equal(xj, x) and torch.equal(yj, y) and torch.equal(xj, xj2) and torch.equal(yj, yj2)
                  and torch.equal(a1[0], a2[0]) and torch.equal(a1[1], a2[1]) and torch.equal(a1[0], xj))
            if not ok:
                p.violation("C11:seeded:image_label_joint_requests_disagree" + ("|in_memory_dataset" if stored else ""),
                            dict(cfg=cfg, seed=seed, i=i, seeded=True),
                            f"cfg={cfg} seed={seed} i={i}: joint ({xj.flatten().tolist()}, {yj.tolist()}) vs image-only "
                            f"{x.flatten().tolist()} / label-only {y.tolist()} / reversed ({xj2.flatten().tolist()}, {yj2.tolist()})")
            else:
                p.observe(("seeded", cfg, seed, i, tuple(yj.tolist())))


def class_count_change(p):
    """The wrapped dataset's class count changes while the mix wrapper lives (a random-class wrapper below is reconfigured,
    a dataset gets labels added): every later sample must be encoded over the classes the dataset has THEN."""
    import torch
    from kappadata.datasets.kd_dataset import KDDataset
    from kappadata.wrappers.sample_wrappers.kd_mix_wrapper import KDMixWrapper
    from kappadata.wrappers.mode_wrapper import ModeWrapper

    class DS(KDDataset):
        nc = 3

        def __len__(self):
            return 5

        def getitem_x(self, idx, ctx=None):
            return torch.full((2,), float(idx) + 1.0)

        def getitem_class(self, idx, ctx=None):
            return int(idx) % self.nc

        def getshape_class(self):
            return (self.nc,)

    for c0, c1 in ((6, 3), (3, 6), (4, 2), (2, 5)):
        for prob in (1.0, 0.4):
            for seed in (0, 3):
                ds = DS()
                ds.nc = c0
                mw = ModeWrapper(KDMixWrapper(ds, mixup_p=prob, mixup_alpha=1.0, seed=seed), mode="x class")
                case = dict(class_count_change=True, before=c0, after=c1, p=prob, seed=seed)
                p.evaluations += 1
                try:
                    mw[0]
                    ds.nc = c1
                    got = [mw[i] for i in range(5)]
                    ds2 = DS()
                    ds2.nc = c1
                    ref = [ModeWrapper(KDMixWrapper(ds2, mixup_p=prob, mixup_alpha=1.0, seed=seed), mode="x class")[i] for i in range(5)]
                except Exception as e:
                    p.violation(f"C11:class_count_change:exception:{type(e).__name__}", case, f"{case}: {e!r}")
                    continue
                bad = [i for i in range(5) if tuple(got[i][1].shape) != (c1,) or not torch.equal(got[i][1], ref[i][1])
                       or not torch.equal(got[i][0], ref[i][0])]
                if bad:
                    p.violation("C11:class_count_change:samples_encoded_over_a_stale_class_count", case,
                                f"{case}: sample {bad[0]} label {got[bad[0]][1].tolist()}, a wrapper built after the change gives "
                                f"{ref[bad[0]][1].tolist()}")
                else:
                    p.observe(("class_count_change", c0, c1, prob, seed))


def all_cfgs(tier):
    out = []
    for n in (1, 2, 3, 4):
        for nc in ((2, 3) if tier == "quick" else (2, 3, 4)):
            for sh in (("equal_vec", "differ", "differ2") if tier == "quick" else SHAPES):
                for prob in (0.3, 1.0):
                    for alpha in ((1.0,) if tier == "quick" else (0.5, 1.0)):
                        out.append((n, nc, sh, prob, alpha))
    # datasets whose labels already are probability vectors (label smoothing below the mix wrapper)
    for n in (2, 3):
        for nc in (2, 3):
            for prob in (0.3, 1.0):
                out.append((n, nc, "equal_vec", prob, 1.0, True))
    return out


MODES = ("x class", "class x", "x", "class", "index x class", "x index class")


def one_hot_utils(p):
    """kappadata/utils/one_hot.py directly: indices become one-hot rows, vectors / matrices that already are encodings pass
    through unchanged (also soft ones)."""
    import torch
    from kappadata.utils.one_hot import to_one_hot_vector, to_one_hot_matrix
    for C in (1, 2, 3, 4):
        for c in range(C):
            for y in (c, torch.tensor(c)):
                p.evaluations += 1
                try:
                    v = to_one_hot_vector(y, n_classes=C)
                    exp = torch.zeros(C)
                    exp[c] = 1
                    if v.dtype != torch.float32 or not torch.equal(v, exp):
                        p.violation("C11:one_hot_utils:index_not_encoded", dict(one_hot=True), f"to_one_hot_vector({y!r}, {C}) = {v}")
                except Exception as e:
                    p.violation(f"C11:one_hot_utils:exception:{type(e).__name__}", dict(one_hot=True), f"to_one_hot_vector({y!r}, {C}): {e!r}")
        for soft in (soft_label(0, C), torch.full((C,), 1.0 / C), torch.eye(C)[C - 1]):
            p.evaluations += 1
            try:
                v = to_one_hot_vector(soft.clone(), n_classes=C)
                if not torch.allclose(v, soft.float()):
                    p.violation("C11:one_hot_utils:vector_not_passed_through", dict(one_hot=True), f"to_one_hot_vector({soft.tolist()}) = {v.tolist()}")
                m = to_one_hot_matrix(torch.stack([soft, soft]), n_classes=C)
                if not torch.allclose(m, torch.stack([soft, soft]).float()):
                    p.violation("C11:one_hot_utils:matrix_not_passed_through", dict(one_hot=True), f"{m.tolist()}")
                idx = torch.arange(C)
                m2 = to_one_hot_matrix(idx, n_classes=C)
                if not torch.equal(m2, torch.eye(C)):
                    p.violation("C11:one_hot_utils:index_not_encoded", dict(one_hot=True), f"to_one_hot_matrix({idx.tolist()}) = {m2.tolist()}")
            except Exception as e:
                p.violation(f"C11:one_hot_utils:exception:{type(e).__name__}", dict(one_hot=True), repr(e))
    p.observe(("one_hot_utils",))


def task(args):
    cfgs, modes = args
    p = Partial()
    if cfgs == "one_hot":
        one_hot_utils(p)
        class_count_change(p)
        return p
    for cfg in cfgs:
        n = cfg[0]
        for i in range(n):
            for mode in modes:
                def guarded(c, cfg=cfg, i=i, mode=mode):
                    try:
                        return run_one(cfg, i, mode, c)
                    except Exception as e:
                        return f"output_malformed:{type(e).__name__}", repr(e)

                runs = [(None, ch_, r_) for ch_, r_ in explore(guarded, diverged=lambda msg: (NOT_REPRODUCIBLE, msg))]
                if n == 3 and len(cfg) == 5:
                    for dt in ("uint8", "int64"):
                        XDTYPE[0] = dt
                        try:
                            runs += [(dt, ch_, r_) for ch_, r_ in explore(guarded, diverged=lambda msg: (NOT_REPRODUCIBLE, msg))]
                        finally:
                            XDTYPE[0] = None
                for dt, ch, (kind, info) in runs:
                    p.evaluations += 1
                    if kind is not None:
                        p.violation(f"C11:{kind}|shapes={'differ' if cfg[2].startswith('differ') else 'equal'}{'|soft_labels' if len(cfg) > 5 else ''}|p={cfg[3]}"
                                    f"{'|sample_dtype=' + dt if dt else ''}"
                                    f"|mode={'joint' if ('x' in mode.split() and 'class' in mode.split()) else 'single'}",
                                    dict(cfg=cfg, i=i, mode=mode, choices=ch.choices, xdtype=dt), f"cfg={cfg} i={i} mode='{mode}' sample dtype {dt or 'float32'}: {kind}: {info}")
                    else:
                        p.observe((cfg, i, mode, info))
        seeded_agreement(cfg, p)
    p.sample(dict(cfg=cfgs[0], modes=list(MODES)))
    return p


def run(run):
    cfgs = all_cfgs(run.tier)
    chunk = 1
    modes = MODES if run.tier == "thorough" else MODES[:5]
    run.pmap(task, [(cfgs[i:i + chunk], modes) for i in range(0, len(cfgs), chunk)] + [("one_hot", modes)])
    run.extra.update(bounds=dict(n="1..4", classes="2..4", shapes=list(SHAPES), p=[0.3, 1.0], unit_alphabet=UNIT,
                                 beta_alphabet=BETA, partner="full range", seeds_real="0..7"), configs=len(cfgs))
    run.assumptions += [
        "cutmix configurations answer NotImplementedError (explicit, outside the claim)",
        "root datasets return fresh tensors per access (the wrapper mixes in place)",
    ]


def replay(case):
    if case.get("class_count_change"):
        p = Partial()
        class_count_change(p)
        return None if not p.violations else "; ".join(m for _, m in p.violations.values())
    cfg = tuple(case["cfg"])
    if case.get("one_hot"):
        p = Partial()
        one_hot_utils(p)
        return None if not p.violations else "; ".join(m for _, m in p.violations.values())
    if case.get("seeded"):
        p = Partial()
        seeded_agreement(cfg, p)
        return None if not p.violations else "; ".join(m for _, m in p.violations.values())
    XDTYPE[0] = case.get("xdtype")
    try:
        kind, info = run_one(cfg, case["i"], case["mode"], Chooser(tuple(case["choices"])))
    finally:
        XDTYPE[0] = None
    return None if kind is None else f"{kind}: {info}"
