"""C09 - every dataloader worker gets its own reproducible augmentation stream (E1 product over stacks x worker sets)."""
import copy
import dataclasses
import functools

from ..core.runner import Partial
from . import transform_catalogue as cat

LEVEL = "exploration"
RULE = ("dataset stacks (mode wrapper over transform / multi-view / subset / concat / identity wrappers, segmentation-transform "
        "wrapper, ready-made multi-view wrappers, interleaved concat) x transform specs from the catalogue grammar x registered "
        "collators x worker counts x base seeds; a worker is an identical copy of the stack (as after fork) + np.random.seed(worker "
        "seed) + worker_init_fn(rank); every numpy Generator reachable from the stack is found by a graph walk and its next 16 "
        "draws (from a copy) are compared across workers: different seeds must share no length-3 sub-window, equal seeds must "
        "agree bit for bit; distinct = distinct (stack, generator path) pairs checked")

WINDOW = 16


def walk(obj, path, out, seen, depth=0):
    """Collect (path, Generator) for every numpy Generator reachable through attributes / containers."""
    import numpy as np
    import torch
    if depth > 14 or id(obj) in seen:
        if isinstance(obj, np.random.Generator):
            out.append((path, obj))
        return
    if isinstance(obj, np.random.Generator):
        seen.add(id(obj))
        out.append((path, obj))
        return
    if obj is None or isinstance(obj, (str, bytes, int, float, bool, complex, type, torch.Tensor, np.ndarray)):
        return
    seen.add(id(obj))
    if isinstance(obj, dict):
        for k, v in obj.items():
            walk(v, f"{path}[{k!r}]", out, seen, depth + 1)
        return
    if isinstance(obj, (list, tuple)):
        for i, v in enumerate(obj):
            walk(v, f"{path}[{i}]", out, seen, depth + 1)
        return
    if isinstance(obj, functools.partial):
        walk(obj.func, path + ".func", out, seen, depth + 1)
        walk(obj.args, path + ".args", out, seen, depth + 1)
        walk(obj.keywords, path + ".keywords", out, seen, depth + 1)
        return
    mod = type(obj).__module__ or ""
    if not (mod.startswith("kappadata") or mod.startswith("kdverif") or dataclasses.is_dataclass(obj)
            or mod.startswith("torch.utils.data")):
        return
    d = getattr(obj, "__dict__", None)
    if d is None:
        return
    for k, v in d.items():
        if k in ("logger",):
            continue
        walk(v, f"{path}.{k}<{type(v).__name__}>", out, seen, depth + 1)


def windows(stack):
    out = []
    walk(stack, "stack", out, set())
    res = {}
    for path, gen in out:
        g = copy.deepcopy(gen)
        res[path] = tuple(float(v) for v in g.random(WINDOW))
    return res


def overlap(a, b):
    """True if some length-3 run of a occurs in b."""
    runs = {tuple(b[i:i + 3]) for i in range(len(b) - 2)}
    return any(tuple(a[i:i + 3]) in runs for i in range(len(a) - 2))


# ------------------------------------------------------------------------------- stacks

def root_cls():
    from kappadata.datasets.kd_dataset import KDDataset
    import torch

    class Root(KDDataset):
        def __len__(self):
            return 4

        def getitem_x(self, idx, ctx=None):
            return torch.zeros(3, 8, 8)

        def getitem_class(self, idx, ctx=None):
            return 0

        def getitem_semseg(self, idx, ctx=None):
            return torch.zeros(8, 8, dtype=torch.long)

        def getshape_class(self):
            return (2,)

    return Root


def make_collators(kind):
    from kappadata.collators.kd_mix_collator import KDMixCollator
    from kappadata.collators.kd_dino_mask_collator import KDDinoMaskCollator
    from kappadata.collators.kd_ijepa_mask_collator import KDIjepaMaskCollator
    from kappadata.collators.base.kd_compose_collator import KDComposeCollator
    if kind == "none":
        return None
    if kind == "mix":
        return [KDMixCollator(mixup_p=1.0, mixup_alpha=0.8, dataset_mode="x class", return_ctx=False)]
    if kind == "mix+dino":
        return [KDMixCollator(mixup_p=1.0, mixup_alpha=0.8, dataset_mode="x class", return_ctx=False),
                KDDinoMaskCollator(mask_ratio=(0.1, 0.5), mask_prob=0.5, mask_size=4, dataset_mode="x", return_ctx=True)]
    if kind == "compose":
        return [KDComposeCollator([KDMixCollator(mixup_p=1.0, mixup_alpha=0.8),
                                   KDDinoMaskCollator(mask_ratio=(0.1, 0.5), mask_prob=0.5, mask_size=4)],
                                  dataset_mode="x class", return_ctx=True)]
    if kind == "ijepa":
        return [KDIjepaMaskCollator(input_size=(64, 64), patch_size=8, min_keep=1, dataset_mode="x", return_ctx=True)]
    raise ValueError(kind)


STACKS = ("xtransform", "multiview", "subset>xtransform", "idw>concat", "xtransform>xtransform", "interleaved",
          "ytransform", "concat_shared_root", "multiview_plain_first", "multiview_plain_middle", "xtransform_reassigned")


def make_stack(stack, spec, collators):
    from kappadata.wrappers.mode_wrapper import ModeWrapper
    from kappadata.wrappers.sample_wrappers.x_transform_wrapper import XTransformWrapper
    from kappadata.wrappers.sample_wrappers.kd_multi_view_wrapper import KDMultiViewWrapper
    from kappadata.datasets.kd_subset import KDSubset
    from kappadata.datasets.kd_wrapper import KDWrapper
    from kappadata.datasets.kd_concat_dataset import KDConcatDataset
    from kappadata.samplers.interleaved_sampler import _InterleavedConcatDataset
    Root = root_cls()

    class IdW(KDWrapper):
        pass

    def root():
        return Root(collators=make_collators(collators))

    t = lambda: cat.build(spec)
    other = lambda: cat.build(("leaf", "KDRandomColorJitter", 0))
    if stack == "xtransform":
        return ModeWrapper(XTransformWrapper(root(), t()), mode="x class")
    if stack == "multiview":
        return ModeWrapper(KDMultiViewWrapper(root(), [(2, t()), other()]), mode="x")
    if stack == "xtransform_reassigned":
        # built with a plain callable, the stochastic transform is assigned to the public attribute afterwards
        w = XTransformWrapper(root(), cat.Plain())
        w.getitem_x(0)
        w.transform = t()
        return ModeWrapper(w, mode="x class")
    if stack == "multiview_plain_first":
        # a plain callable (torchvision transform / lambda) as a view config before the stochastic ones
        return ModeWrapper(KDMultiViewWrapper(root(), [cat.Plain(), (2, t()), other()]), mode="x")
    if stack == "multiview_plain_middle":
        return ModeWrapper(KDMultiViewWrapper(root(), [other(), (2, cat.Plain()), t()]), mode="x")
    if stack == "subset>xtransform":
        return ModeWrapper(KDSubset(XTransformWrapper(root(), t()), [0, 2]), mode="x")
    if stack == "idw>concat":
        return ModeWrapper(IdW(KDConcatDataset([XTransformWrapper(root(), other()), XTransformWrapper(root(), t())])), mode="x")
    if stack == "concat_shared_root":
        # two different wrapper stacks over ONE root object (e.g. a weak and a strong view of the same dataset), plus a subset
        r = root()
        return ModeWrapper(KDConcatDataset([XTransformWrapper(r, other()), XTransformWrapper(r, t()),
                                            KDSubset(XTransformWrapper(r, t()), [0, 1])]), mode="x")
    if stack == "xtransform>xtransform":
        return ModeWrapper(XTransformWrapper(XTransformWrapper(root(), t()), other()), mode="x")
    if stack == "interleaved":
        return _InterleavedConcatDataset([ModeWrapper(XTransformWrapper(root(), other()), mode="x"),
                                          ModeWrapper(KDSubset(XTransformWrapper(root(), t()), [1]), mode="x")])
    if stack == "ytransform":
        from kappadata.wrappers.sample_wrappers.y_transform_wrapper import YTransformWrapper
        return ModeWrapper(YTransformWrapper(root(), t()), mode="x")
    raise ValueError(stack)


def make_special(name):
    """Stacks that own their transforms (no spec parameter)."""
    from kappadata.wrappers.mode_wrapper import ModeWrapper
    Root = root_cls()
    if name == "semseg":
        from kappadata.wrappers.sample_wrappers.semseg_transform_wrapper import SemsegTransformWrapper
        from kappadata.transforms.semseg import KDSemsegRandomHorizontalFlip, KDSemsegRandomCrop, KDSemsegRandomResize
        from kappadata.transforms import KDRandomColorJitter
        return ModeWrapper(SemsegTransformWrapper(Root(), [
            KDSemsegRandomResize(base_size=(8, 8), ratio=(0.5, 2.0)), KDSemsegRandomCrop(size=4),
            KDSemsegRandomHorizontalFlip(), KDRandomColorJitter(p=0.8, brightness=0.4)]), mode="x semseg")
    import kappadata.common.wrappers.sample_wrappers as cw
    if name == "byol_multiview":
        return ModeWrapper(cw.ByolMultiViewWrapper(Root()), mode="x")
    if name == "mugs_multiview":
        return ModeWrapper(cw.MUGSMultiViewWrapper(Root()), mode="x")
    if name == "imagenet_minaug_multiview":
        return ModeWrapper(cw.ImagenetMinaugMultiViewWrapper(Root(), size=8), mode="x")
    if name == "imagenet_minaug_xtransform":
        return ModeWrapper(cw.ImagenetMinaugXTransformWrapper(Root(), size=8), mode="x")
    raise ValueError(name)


SPECIALS = ("semseg", "byol_multiview", "mugs_multiview", "imagenet_minaug_multiview", "imagenet_minaug_xtransform")


def simulate(make, W, base_seed):
    """-> list of {path: window} per worker; worker k: identical copy + np.random.seed + worker_init_fn(k)."""
    import numpy as np
    import torch
    import kappadata.transforms.base.kd_transform as kdt_mod

    import torch.utils.data._utils.worker as tw

    res = []
    seeds = [base_seed + r for r in range(W)] + [base_seed]  # last one: rank 0's seed again (reproducibility)
    saved_info = tw._worker_info
    try:
        for k, seed in enumerate(seeds):
            np.random.seed(424242)  # identical construction-time state = identical copies, as after fork
            torch.manual_seed(424242)
            st = make()
            rank = k if k < W else 0
            # what torch's worker loop sets up before calling worker_init_fn: the worker info (seed = base_seed + worker id,
            # visible through torch.utils.data.get_worker_info() wherever the library imported it from) and the global seeds
            tw._worker_info = tw.WorkerInfo(id=rank, num_workers=W, seed=seed, dataset=st)
            np.random.seed(seed)
            torch.manual_seed(seed)
            st.worker_init_fn(rank, batch_size=2, updates=4)
            res.append(windows(st))
    finally:
        tw._worker_info = saved_info
    return res, seeds


def abstract(path):
    import re
    return re.sub(r"\[\d+\]", "[i]", path)


def check(make, label, case, p):
    for W in (2, 3):
        for base in (0, 1234):
            try:
                res, seeds = simulate(make, W, base)
            except Exception as e:
                p.violation(f"C09:exception:{type(e).__name__}|{label}", dict(case, W=W, base_seed=base),
                            f"{label}: {type(e).__name__}: {e}")
                return
            p.evaluations += 1
            paths = set(res[0])
            if not paths:
                p.count("stacks_without_generators")
            for r in res[1:]:
                if set(r) != paths:
                    raise RuntimeError(f"harness: generator paths differ between simulated workers for {label}")
            for path in sorted(paths):
                p.observe((label, abstract(path)))
                if res[-1][path] != res[0][path]:
                    p.violation(f"C09:same_worker_seed_not_reproducible|{abstract(path)}", dict(case, W=W, base_seed=base, path=path),
                                f"{label}: generator {path}: two workers with seed {seeds[0]} draw different streams")
                for a in range(W):
                    for b in range(W):
                        if a == b:
                            continue
                        # a generator of one worker must not share a stream with ANY generator of another worker
                        for other in sorted(paths):
                            if other != path and overlap(res[a][path], res[b][other]):
                                p.violation(f"C09:workers_share_a_stream_across_members|{abstract(path)}",
                                            dict(case, W=W, base_seed=base, path=path, other=other),
                                            f"{label}: generator {path} of worker {a} (seed {seeds[a]}) and generator {other} of worker {b} "
                                            f"(seed {seeds[b]}) draw from one stream after worker_init_fn")
                                break
                    for b in range(a + 1, W):
                        if overlap(res[a][path], res[b][path]):
                            same = res[a][path] == res[b][path]
                            p.violation(f"C09:workers_replay_one_stream|{abstract(path)}", dict(case, W=W, base_seed=base, path=path),
                                        f"{label}: generator {path}: workers {a} and {b} (seeds {seeds[a]}, {seeds[b]}) "
                                        f"{'draw the identical stream' if same else 'share part of a stream'} after worker_init_fn")


def task(args):
    items = args
    p = Partial()
    for kind, a, b, c in items:
        if kind == "spec":
            stack, spec, coll = a, b, c
            label = f"{stack}[{cat.spec_classes(spec)}]+collators:{coll}"
            check(lambda: make_stack(stack, spec, coll), label, dict(stack=stack, spec=spec, collators=coll), p)
        else:
            check(lambda: make_special(a), a, dict(special=a), p)
    k = items[0]
    p.sample(dict(stack=k[1], spec=cat.spec_name(k[2]) if k[0] == "spec" else None, collators=k[3], workers=[2, 3], base_seeds=[0, 1234]))
    return p


def run(run):
    cat.discover()
    specs = cat.leaf_specs() + cat.composition_specs(2 if run.tier == "quick" else 3)
    specs = [s for s in specs if not (s[0] == "leaf" and s[1] in ("MAEFinetuneTransform",) and run.tier == "quick")]
    colls = ("none", "mix", "mix+dino", "compose", "ijepa")
    items = []
    n = 0
    for si, spec in enumerate(specs):
        leafish = spec[0] == "leaf"
        for ti, stack in enumerate(STACKS):
            # every spec on the plain transform wrapper; the other stacks on a rotating third of the specs (quick)
            if run.tier == "quick" and stack != "xtransform" and (si + ti + run.seed) % 4 != 0:
                continue
            coll = colls[n % len(colls)]
            n += 1
            items.append(("spec", stack, spec, coll))
    for s in SPECIALS:
        items.append(("special", s, None, None))
    chunk = 8
    run.pmap(task, [items[i:i + chunk] for i in range(0, len(items), chunk)])
    run.exhaustive = run.tier == "thorough"
    run.extra.update(bounds=dict(specs=len(specs), stacks=list(STACKS) + list(SPECIALS), collators=list(colls), workers=[2, 3],
                                 base_seeds=[0, 1234], window=WINDOW), stack_instances=len(items))
    run.assumptions += [
        "a simulated worker is an identical reconstruction of the stack (same global RNG state at construction, as after fork), "
        "then torch's worker info is installed (id, num_workers, seed = base seed + id), the global seeds are set and "
        "dataset.worker_init_fn(rank) runs",
        "stochastic members inside user-written root datasets or torchvision containers are outside the library's hook chain",
        "components that create a fresh OS-entropy generator per call (unseeded KDMixWrapper) hold no generator and are not observed",
    ]


def _t(x):
    return tuple(_t(i) for i in x) if isinstance(x, list) else x


def replay(case):
    p = Partial()
    cat.discover()
    if case.get("special"):
        check(lambda: make_special(case["special"]), case["special"], dict(special=case["special"]), p)
    else:
        spec = _t(case["spec"])
        check(lambda: make_stack(case["stack"], spec, case["collators"]), case["stack"], dict(case), p)
    return None if not p.violations else "; ".join(m for _, m in list(p.violations.values())[:3])
