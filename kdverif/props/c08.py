"""C08 - seeded sample wrappers make sample i a pure function of (data, config, seed, i) (E2 over access histories)."""
import itertools
import random

from ..core.runner import Partial
from . import transform_catalogue as cat
from .c07 import dig, set_global

LEVEL = "model_checking"
RULE = ("seeded sample wrappers (transform wrappers for x / other items, multi-view, sample-level mix, segmentation-transform, "
        "ready-made wrappers) x transform specs from the catalogue grammar incl. a probe transform that outputs its raw draws, "
        "placed bare / below a subset / below a repeat wrapper / above an identity wrapper, over 3 samples with identical data; "
        "BFS over all access histories of length <= 3 (with global-RNG perturbations in between) on one object and over simulated "
        "workers (fresh copy + own global seed + worker_init_fn); state = (stack, index); oracle: the observation for a state is "
        "the same along every history and on every worker; different indices give different observations; every special stack and "
        "every leaf transform also over an in-memory dataset that hands out its stored tensors (they must stay what they were)")

N = 3
SEED = 5
_SEED_OVERRIDE = [None]


_SEED_NUMPY = [False]
_STORED = [False]  # True: the root dataset keeps its samples in memory and hands out the stored objects themselves
_ROOTS = []


def seed_value(offset=0):
    base = SEED if _SEED_OVERRIDE[0] is None else _SEED_OVERRIDE[0]
    if _SEED_NUMPY[0]:
        import numpy as np
        return np.int64(base + offset)  # a seed drawn from a parent generator is a numpy integer
    return base + offset


def probe_cls():
    import torch
    from kappadata.transforms.base.kd_stochastic_transform import KDStochasticTransform

    class Probe(KDStochasticTransform):
        """Outputs its raw draws: any difference in the stream is visible in the output."""

        def __call__(self, x, ctx=None):
            d = self.rng.random(4)
            if ctx is not None:
                ctx["probe"] = float(d[0])
            return torch.tensor(d)

    return Probe


def root_cls():
    import torch
    from kappadata.datasets.kd_dataset import KDDataset
    from PIL import Image

    class Root(KDDataset):
        def __init__(self, kind):
            super().__init__()
            self.kind = kind

        def __len__(self):
            return N

        def getitem_x(self, idx, ctx=None):
            assert 0 <= idx < N
            if _STORED[0]:
                if not hasattr(self, "store"):
                    self.store = {i: self._fresh_x(i) for i in range(N)}
                    self.pristine = {i: dig(self._fresh_x(i)) for i in range(N)}
                    _ROOTS.append(self)
                return self.store[int(idx)]
            return self._fresh_x(idx)

        def modified(self):
            return [i for i in range(N) if dig(self.store[i]) != self.pristine[i]] if hasattr(self, "store") else []

        def _fresh_x(self, idx):
            if self.kind in ("T3_distinct", "T3_distinct_soft"):  # for the mix wrapper the partner must be visible in the result
                return cat.inputs("T3", int(idx))
            return cat.inputs(self.kind, 0)  # identical data for every index

        def getitem_class(self, idx, ctx=None):
            if self.kind == "T3_distinct_soft":
                # labels that already are probability vectors (float32), kept in memory like the samples
                if _STORED[0]:
                    if not hasattr(self, "label_store"):
                        self.label_store = {i: self._fresh_label(i) for i in range(N)}
                    return self.label_store[int(idx)]
                return self._fresh_label(idx)
            return int(idx) % 3 if self.kind == "T3_distinct" else 1

        def _fresh_label(self, idx):
            v = torch.full((3,), 0.1)
            v[int(idx) % 3] = 0.8
            return v

        def getitem_semseg(self, idx, ctx=None):
            return cat.inputs("PAIR", 0)[1]

        def getitem_y(self, idx, ctx=None):
            return self.getitem_x(idx, ctx)

        def getitem_source(self, idx, ctx=None):
            return self.getitem_x(idx, ctx)

        def getitem_target(self, idx, ctx=None):
            return self.getitem_x(idx, ctx)

        def getshape_class(self):
            return (3,)

    return Root


def make_transform(tspec):
    if tspec == "probe":
        return probe_cls()()
    if isinstance(tspec, tuple) and tspec[0] == "wrapped_probe":
        inner = probe_cls()()
        kind = tspec[1]
        if kind == "compose":
            from kappadata.transforms.base.kd_compose_transform import KDComposeTransform
            return KDComposeTransform([inner])
        if kind == "scheduled":
            from kappadata.transforms.base.kd_scheduled_transform import KDScheduledTransform
            return KDScheduledTransform(inner)
        if kind == "random_apply":
            from kappadata.transforms.kd_random_apply import KDRandomApply
            return KDRandomApply(inner, p=1.0)
        if kind == "compose>scheduled":
            from kappadata.transforms.base.kd_compose_transform import KDComposeTransform
            from kappadata.transforms.base.kd_scheduled_transform import KDScheduledTransform
            return KDComposeTransform([KDScheduledTransform(inner)])
    return cat.build(tspec)


def tname(tspec):
    if tspec == "probe":
        return "Probe"
    if isinstance(tspec, tuple) and tspec[0] == "wrapped_probe":
        return f"{tspec[1]}(Probe)"
    return cat.spec_classes(tspec)


def tinput(tspec):
    if tspec == "probe" or (isinstance(tspec, tuple) and tspec[0] == "wrapped_probe"):
        return "T3"
    return cat.spec_inputs(tspec)[0]


WRAPPERS = ("xtransform", "multiview", "multiview2")
PLACEMENTS = ("bare", "below_subset", "below_repeat", "above_identity", "below_xtransform_det")


def make_stack(wrapper, placement, tspec):
    """-> (mode-wrapped dataset, index map: position k of the stack is sample index_map[k] of the seeded wrapper)"""
    from kappadata.wrappers.mode_wrapper import ModeWrapper
    from kappadata.wrappers.sample_wrappers.x_transform_wrapper import XTransformWrapper
    from kappadata.wrappers.sample_wrappers.kd_multi_view_wrapper import KDMultiViewWrapper
    from kappadata.wrappers.sample_wrappers.x_repeat_wrapper import XRepeatWrapper
    from kappadata.datasets.kd_subset import KDSubset
    from kappadata.datasets.kd_wrapper import KDWrapper
    Root = root_cls()

    class IdW(KDWrapper):
        pass

    base = Root(tinput(tspec))
    if placement == "above_identity":
        base = IdW(base)
    if wrapper == "xtransform":
        w = XTransformWrapper(base, make_transform(tspec), seed=seed_value())
    elif wrapper == "multiview":
        w = KDMultiViewWrapper(base, [(2, make_transform(tspec))], seed=seed_value())
    elif wrapper == "multiview2":
        w = KDMultiViewWrapper(base, [make_transform(tspec), (2, make_transform(tspec))], seed=seed_value())
    else:
        raise ValueError(wrapper)
    idx_map = list(range(N))
    if placement == "below_subset":
        w = KDSubset(w, [2, 0, 1, 2])
        idx_map = [2, 0, 1, 2]
    elif placement == "below_repeat":
        w = XRepeatWrapper(w, num_repeats=2) if wrapper == "xtransform" and _tensor_out(tspec) else w
    elif placement == "below_xtransform_det":
        from kappadata.transforms.base.kd_identity_transform import KDIdentityTransform
        w = XTransformWrapper(w, KDIdentityTransform())
    return ModeWrapper(w, mode="x class", return_ctx=True), idx_map


def _tensor_out(tspec):
    return tspec == "probe" or (isinstance(tspec, tuple) and tspec[0] == "wrapped_probe")


def make_special(name):
    from kappadata.wrappers.mode_wrapper import ModeWrapper
    Root = root_cls()
    from kappadata.wrappers.sample_wrappers.kd_mix_wrapper import KDMixWrapper
    if name == "mix":
        return ModeWrapper(KDMixWrapper(Root("T3_distinct"), mixup_p=1.0, mixup_alpha=0.8, seed=seed_value()), "x class",
                           return_ctx=True), list(range(N))
    if name == "mix_soft":
        return ModeWrapper(KDMixWrapper(Root("T3_distinct_soft"), mixup_p=1.0, mixup_alpha=0.8, seed=seed_value()), "x class",
                           return_ctx=True), list(range(N))
    if name == "mix_p05":
        return ModeWrapper(KDMixWrapper(Root("T3_distinct"), mixup_p=0.5, mixup_alpha=0.8, seed=seed_value(1)), "class x",
                           return_ctx=True), list(range(N))
    if name == "semseg":
        from kappadata.wrappers.sample_wrappers.semseg_transform_wrapper import SemsegTransformWrapper
        from kappadata.transforms.semseg import KDSemsegRandomHorizontalFlip, KDSemsegRandomCrop, KDSemsegRandomResize
        return ModeWrapper(SemsegTransformWrapper(Root("T3"), [
            KDSemsegRandomResize(base_size=(8, 8), ratio=(0.5, 2.0), interpolation="nearest"), KDSemsegRandomCrop(size=4),
            KDSemsegRandomHorizontalFlip(), probe_like_color()], seed=seed_value()), "x semseg", return_ctx=True), list(range(N))
    if name == "other_items":
        from kappadata.wrappers.sample_wrappers import YTransformWrapper, SourceTransformWrapper, TargetTransformWrapper
        from kappadata.transforms.base.kd_compose_transform import KDComposeTransform
        P = probe_cls()
        w = YTransformWrapper(Root("T3"), P(), seed=seed_value())
        w = SourceTransformWrapper(w, KDComposeTransform([P()]), seed=seed_value(1))
        w = TargetTransformWrapper(w, P(), seed=seed_value(2))
        return ModeWrapper(w, "y source target", return_ctx=True), list(range(N))
    if name in ("semseg_nested", "semseg_scheduled"):
        from kappadata.wrappers.sample_wrappers.semseg_transform_wrapper import SemsegTransformWrapper
        from kappadata.transforms.semseg import KDSemsegRandomHorizontalFlip, KDSemsegRandomCrop
        from kappadata.transforms import KDColorJitter, KDRandomGrayscale, KDRandomColorJitter, KDScheduledTransform, KDRandomApply
        from kappadata.transforms import PatchwiseTransform, KDRandomHorizontalFlip
        # x-only transforms given as nested groups / containers (a nested list becomes a KDComposeTransform)
        return ModeWrapper(SemsegTransformWrapper(Root("T3"), [
            KDSemsegRandomCrop(size=4), [KDColorJitter(brightness=0.4, contrast=0.4), KDRandomGrayscale(p=0.5)],
            *([KDScheduledTransform(KDRandomColorJitter(p=0.8, brightness=0.4))] if name == "semseg_scheduled" else []),
            PatchwiseTransform(2, KDRandomHorizontalFlip()),
            KDRandomApply(KDColorJitter(saturation=0.5), p=0.5), KDSemsegRandomHorizontalFlip()], seed=seed_value()), "x semseg",
            return_ctx=True), list(range(N))
    if name in ("transform_reassigned", "transform_reassigned_after_use"):
        # the wrapper is built with a plain callable (test-time pipeline) and gets a stochastic transform assigned later
        # (`dataset.transform = train_transform`), possibly after it already served a sample
        from kappadata.wrappers.sample_wrappers.x_transform_wrapper import XTransformWrapper
        P = probe_cls()
        w = XTransformWrapper(Root("T3"), cat.Plain(), seed=seed_value())
        if name.endswith("after_use"):
            w.getitem_x(0)
        w.transform = P()
        return ModeWrapper(w, "x class", return_ctx=True), list(range(N))
    if name in ("multiview_plain_first", "multiview_plain_middle"):
        # plain callables (torchvision transforms, lambdas) among the view configs
        from kappadata.wrappers.sample_wrappers.kd_multi_view_wrapper import KDMultiViewWrapper
        P = probe_cls()
        cfgs = [cat.Plain(), (2, P()), P()] if name.endswith("first") else [P(), (2, cat.Plain()), P()]
        return ModeWrapper(KDMultiViewWrapper(Root("T3"), cfgs, seed=seed_value()), "x class", return_ctx=True), list(range(N))
    if name.startswith("shared_transform"):
        # ONE transform object used by two seeded wrappers (train/val built from one object, or two stacked wrappers)
        from kappadata.wrappers.sample_wrappers.x_transform_wrapper import XTransformWrapper
        from kappadata.wrappers.sample_wrappers.kd_multi_view_wrapper import KDMultiViewWrapper
        from kappadata.transforms.base.kd_compose_transform import KDComposeTransform
        from kappadata.datasets.kd_dataset import KDDataset
        P = probe_cls()
        t = KDComposeTransform([P()]) if name.endswith("_nested") else P()
        if name.startswith("shared_transform_stacked"):
            w = XTransformWrapper(XTransformWrapper(Root("T3"), t, seed=seed_value()), t, seed=seed_value(3))
            return ModeWrapper(w, "x class", return_ctx=True), list(range(N))
        a = XTransformWrapper(Root("T3"), t, seed=seed_value())
        b = (KDMultiViewWrapper(Root("T3"), [t, (2, t)], seed=seed_value(3)) if "multiview" in name
             else XTransformWrapper(Root("T3"), t, seed=seed_value(3)))

        class Pair(KDDataset):
            """positions 0..N-1 come from wrapper a, N..2N-1 from wrapper b"""

            def __len__(self):
                return 2 * N

            def getitem_x(self, idx, ctx=None):
                return a.getitem_x(idx, ctx) if idx < N else b.getitem_x(idx - N, ctx)

            def getitem_class(self, idx, ctx=None):
                return 0

            def worker_init_fn(self, rank, **kwargs):
                a.worker_init_fn(rank, **kwargs)
                b.worker_init_fn(rank, **kwargs)

        return ModeWrapper(Pair(), "x class", return_ctx=True), list(range(2 * N))
    import kappadata.common.wrappers.sample_wrappers as cw
    if name == "byol_multiview":
        return ModeWrapper(cw.ByolMultiViewWrapper(Root("PIL"), seed=seed_value()), "x", return_ctx=True), list(range(N))
    if name == "mugs_multiview":
        return ModeWrapper(cw.MUGSMultiViewWrapper(Root("PIL"), global_size=8, local_size=8, num_local_crops=2, seed=seed_value()), "x",
                           return_ctx=True), list(range(N))
    if name == "imagenet_minaug_multiview":
        return ModeWrapper(cw.ImagenetMinaugMultiViewWrapper(Root("PIL"), size=8, seed=seed_value()), "x", return_ctx=True), list(range(N))
    if name == "imagenet_minaug_xtransform":
        return ModeWrapper(cw.ImagenetMinaugXTransformWrapper(Root("PIL"), size=8, seed=seed_value()), "x", return_ctx=True), list(range(N))
    raise ValueError(name)


def probe_like_color():
    from kappadata.transforms import KDRandomColorJitter
    return KDRandomColorJitter(p=0.8, brightness=0.4, contrast=0.4)


SPECIALS = ("transform_reassigned", "transform_reassigned_after_use", "mix_soft", "multiview_plain_first", "multiview_plain_middle", "shared_transform_pair", "shared_transform_pair_nested", "shared_transform_pair_multiview", "shared_transform_stacked",
            "shared_transform_stacked_nested", "mix", "mix_p05", "other_items", "semseg", "semseg_nested", "semseg_scheduled", "byol_multiview", "mugs_multiview", "imagenet_minaug_multiview", "imagenet_minaug_xtransform")


def histories(n_pos, maxlen=3):
    """All access sequences of length <= 3 over the stack's positions, each with/without a global-RNG perturbation before
    every access (the perturbation pattern is one bit per history to bound the product)."""
    for L in range(1, maxlen + 1):
        for seq in itertools.product(range(n_pos), repeat=L):
            for perturb in (False, True):
                yield seq, perturb


def explore_stack(make, label, case, p, expect_distinct, maxlen=3, workers=True):
    import numpy as np
    import kappadata.transforms.base.kd_transform as kdt_mod
    table = {}   # state (sample index) -> observation digest
    origin = {}

    def record(i, obs, where):
        p.transitions += 1
        if i in table and table[i] != obs:
            p.violation(f"C08:value_depends_on_history_or_worker|{label}", dict(case, index=i, first=origin[i], second=where),
                        f"{label}: sample {i} observed differently: first via {origin[i]}, then via {where}")
            return False
        if i not in table:
            table[i] = obs
            origin[i] = where
            p.state((label, i, obs))
        return True

    try:
        set_global(0)
        ds, idx_map = make()
        n_pos = len(ds)
    except Exception as e:
        p.violation(f"C08:exception_at_construct:{type(e).__name__}|{label}", case, f"{label}: {type(e).__name__}: {e}")
        return
    try:
        ds[0]
    except (NameError, AttributeError, UnboundLocalError, ImportError, TypeError) as e:
        p.violation(f"C08:exception_at_access:{type(e).__name__}|{label}", case, f"{label}: {type(e).__name__}: {e}")
        return
    except Exception:
        p.count("stack_raises_on_first_access")  # e.g. a crop larger than a patch: not a purity question
        return
    ok = True
    try:
        for seq, perturb in histories(n_pos, maxlen):
            set_global(1 if perturb else 0)
            ds, idx_map = make()
            p.traces += 1
            del _ROOTS[:]
            for step, k in enumerate(seq):
                if perturb:
                    set_global(2 + step)
                obs = dig(ds[k])
                ok = record(idx_map[k], obs, dict(history=list(seq[:step + 1]), perturb=perturb)) and ok
                changed = [(type(r).__name__, r.modified()) for r in _ROOTS if r.modified()]
                if changed:
                    # not a violation by itself (the statement is about the returned sample): it becomes one as soon as a
                    # returned value differs between histories, which the table above decides
                    p.count("accesses_that_modified_the_in_memory_dataset")
            if not ok:
                break
        # simulated dataloader workers: fresh identical copy + own global seed + worker_init_fn(rank)
        for W in ((1, 2, 3) if workers else ()):
            import torch.utils.data._utils.worker as tw
            saved = tw._worker_info
            try:
                for rank in range(W):
                    set_global(0)
                    ds, idx_map = make()
                    # torch's worker loop: worker info installed (seed = base seed + id), global seeds set, then worker_init_fn
                    tw._worker_info = tw.WorkerInfo(id=rank, num_workers=W, seed=9000 + W + rank, dataset=ds)
                    np.random.seed(9000 + W + rank)
                    ds.worker_init_fn(rank, batch_size=2, updates=100000)
                    p.traces += 1
                    for k in range(n_pos):
                        ok = record(idx_map[k], dig(ds[k]), dict(worker=rank, of=W, position=k)) and ok
                        # a second request on the same worker
                        ok = record(idx_map[k], dig(ds[k]), dict(worker=rank, of=W, position=k, repeat=True)) and ok
            finally:
                tw._worker_info = saved
    except Exception as e:
        p.violation(f"C08:exception_at_access:{type(e).__name__}|{label}", case, f"{label}: {type(e).__name__}: {e}")
        return
    # the value must not depend on whether the caller asks for the context
    if ok:
        try:
            set_global(0)
            ds_ctx, idx_map = make()
            set_global(0)
            ds_plain, _ = make()
            from kappadata.wrappers.mode_wrapper import ModeWrapper
            plain = ModeWrapper(ds_plain.dataset, mode=ds_plain.mode, return_ctx=False)
            for k in range(n_pos):
                with_ctx = ds_ctx[k]
                without = plain[k]
                p.transitions += 2
                if dig(with_ctx[0]) != dig(without):
                    p.violation(f"C08:value_depends_on_context_request|{label}", dict(case, position=k),
                                f"{label}: sample at position {k} differs between return_ctx=True and return_ctx=False")
                    ok = False
                    break
        except Exception as e:
            p.violation(f"C08:exception_at_access:{type(e).__name__}|{label}", case, f"{label}: {type(e).__name__}: {e}")
            return
    p.evaluations += 1
    if ok and expect_distinct and len(table) >= N and len(set(table.values())) != len(table):
        p.violation(f"C08:indices_share_a_stream|{label}", case,
                    f"{label}: different indices of identical data give identical observations {sorted(table.items())}")
    if ok:
        p.observe((label, tuple(sorted(table.items()))))


def task(items):
    p = Partial()
    cat.discover()
    for it in items:
        _SEED_OVERRIDE[0] = 0 if it[-1] == "seed0" else None
        _SEED_NUMPY[0] = it[-1] == "npseed"
        _STORED[0] = it[-1] == "stored"
        if it[-1] in ("seed0", "npseed", "stored"):
            it = it[:-1]
        sfx = "|seed0" if _SEED_OVERRIDE[0] == 0 else ("|numpy_int_seed" if _SEED_NUMPY[0] else ("|in_memory_dataset" if _STORED[0] else ""))
        if it[0] == "spec":
            _, wrapper, placement, tspec = it
            label = f"{wrapper}/{placement}[{tname(tspec)}]{sfx}"
            sched = "cheduled" in tname(tspec)  # inside a worker a scheduled strength depends on progress, by design
            explore_stack(lambda: make_stack(wrapper, placement, tspec), label,
                          dict(wrapper=wrapper, placement=placement, tspec=tspec, seed0=sfx == "|seed0", npseed=_SEED_NUMPY[0], stored=_STORED[0]), p, expect_distinct=_tensor_out(tspec),
                          maxlen=3 if _tensor_out(tspec) else 2, workers=not sched)
        else:
            explore_stack(lambda: make_special(it[1]), it[1] + sfx, dict(special=it[1], seed0=sfx == "|seed0", npseed=_SEED_NUMPY[0], stored=_STORED[0]), p,
                          expect_distinct=it[1] in ("byol_multiview", "other_items") or it[1].startswith(("shared_transform", "multiview_plain", "transform_reassigned")),
                          workers=it[1] != "semseg_scheduled", maxlen=3)
    p.sample(dict(item=[str(x) for x in items[0]], histories="all access sequences of length<=3 x perturbation; workers 1..3"))
    return p


def run(run):
    cat.discover()
    probes = ["probe"] + [("wrapped_probe", k) for k in ("compose", "scheduled", "random_apply", "compose>scheduled")]
    specs = probes + cat.leaf_specs() + cat.composition_specs(2 if run.tier == "quick" else 3)
    specs = [s for s in specs if not (isinstance(s, tuple) and s[0] == "leaf" and s[1] in ("MAEFinetuneTransform", "KDSemsegRandomCrop",
             "KDSemsegRandomHorizontalFlip", "KDSemsegRandomResize", "KDSemsegRandomResizeOld", "PatchwiseShuffle",
             "PatchwiseRandomRotation"))]
    items = []
    for si, s in enumerate(specs):
        is_probe = s in probes
        for wi, wrapper in enumerate(WRAPPERS):
            for pi, placement in enumerate(PLACEMENTS):
                if not is_probe:
                    if run.tier == "quick":
                        # catalogue specs: bare transform wrapper always; one more (wrapper, placement) rotating with VERIF_SEED
                        if not ((wrapper == "xtransform" and placement == "bare") or
                                (wi * len(PLACEMENTS) + pi) == (si + run.seed) % (len(WRAPPERS) * len(PLACEMENTS))):
                            continue
                        if s[0] != "leaf" and (si + run.seed) % 3 != 0 and not all(x[0] == "leaf" for x in s[1:] if isinstance(x, tuple)):
                            continue
                items.append(("spec", wrapper, placement, s))
    for sp in SPECIALS:
        items.append(("special", sp))
        items.append(("special", sp, "seed0"))  # seed 0 is legal and falsy
        items.append(("special", sp, "npseed"))  # so is a numpy integer
        items.append(("special", sp, "stored"))  # an in-memory dataset handing out its stored tensors
    for s in specs:
        if s in probes or (isinstance(s, tuple) and s[0] == "leaf"):
            items.append(("spec", "xtransform", "bare", s, "stored"))
    for s in probes:
        for wrapper in WRAPPERS:
            items.append(("spec", wrapper, "bare", s, "seed0"))
            items.append(("spec", wrapper, "bare", s, "npseed"))
    chunk = 6
    run.pmap(task, [items[i:i + chunk] for i in range(0, len(items), chunk)])
    run.exhaustive = run.tier == "thorough"
    run.extra.update(bounds=dict(samples=N, history_length="1..3", workers="1..3", transform_specs=len(specs),
                                 wrappers=list(WRAPPERS) + list(SPECIALS), placements=list(PLACEMENTS)), stack_instances=len(items))
    run.assumptions += [
        "root dataset returns identical data for every index, so only the random stream can distinguish indices",
        "'different indices draw from different streams' is asserted on probe transforms (4 raw doubles; coincidence < 1e-60)",
        "real DataLoader worker processes are not part of the deciding step",
    ]


def _t(x):
    return tuple(_t(i) for i in x) if isinstance(x, list) else x


def replay(case):
    p = Partial()
    cat.discover()
    _SEED_OVERRIDE[0] = 0 if case.get("seed0") else None
    _SEED_NUMPY[0] = bool(case.get("npseed"))
    _STORED[0] = bool(case.get("stored"))
    if case.get("special"):
        explore_stack(lambda: make_special(case["special"]), case["special"], dict(special=case["special"]), p, False)
    else:
        ts = case["tspec"]
        ts = _t(ts) if isinstance(ts, list) else ts
        explore_stack(lambda: make_stack(case["wrapper"], case["placement"], ts), "replay", {}, p, _tensor_out(ts))
    return None if not p.violations else "; ".join(m for _, m in list(p.violations.values())[:3])
