"""C04 - interleaved scheduler: main stream, batch cutting, stopping point (E3 lock-step model/impl product)."""
from ..core.runner import Partial
from ..models import interleaved_ref as ref
from . import interleaved_common as ic

LEVEL = "model_checking"
RULE = ("complete bounded configuration space (N, B<=N, drop_last, drop_last_batch_size=kB<=N) x (epochs|updates|samples "
        "budget values) x interleaved config sets; every configuration: reference-model trace replayed transition by "
        "transition against the real InterleavedSampler generator with an explicit horizon; distinct = distinct "
        "main-stream projections (set_epoch + (is_last, index) sequences); states = model counters "
        "(epoch, update, sample, pos_in_epoch, pos_in_batch)")


def bounds(tier):
    return dict(maxN=7 if tier == "quick" else 10, pairs=8 if tier == "quick" else 22)


def config_sets(pairs, seed=0):
    menu = ic.config_menu_small()
    sets = [()] + [(c,) for c in menu]
    sub = ic.pick(menu, pairs, seed)
    sets += [(a, b) for a in sub for b in sub]
    return sets


def project_main(events):
    return [x for x in events if x[0] in ('E', 'M')]


def signature(kind, geo, bud, cfgs):
    N, B, dl, dlbs = geo
    return (f"C04:{kind}|budget={bud[0]}|drop_last={dl}|dlbs={'set' if dlbs is not None else 'none'}"
            f"|short_last_batch={N % B != 0}|configs={'yes' if cfgs else 'no'}")


def check_one(geo, bud, cfgs, plain=False, with_batches=False, states=None):
    """Returns (kind or None, detail, n_transitions, projection digest source)."""
    idx_fn = (lambda N, e: list(range(N))) if plain else ref.main_indices
    model, _ = ref.trace(geo, bud, cfgs, geo[0] * ic.MAIN_DLEN_FACTOR, states=states,
                         has_set_epoch=not plain, idx_fn=idx_fn)
    horizon = len(model) + ic.side_max_len(cfgs) + geo[1] + 2
    try:
        s, log = ic.build(geo, bud, cfgs, plain=plain)
        impl, overrun = ic.impl_events(s, log, horizon)
    except Exception as e:  # in-domain configuration: any exception is a failure to deliver the stream
        return f"exception:{type(e).__name__}", repr(e), 0, None
    pm, pi = project_main(model), project_main(impl)
    kind = ic.classify(pm, pi, overrun)
    detail = None
    if kind is not None:
        k = ic.first_diff(pm, pi)
        detail = dict(first_diff_at=k, model=pm[max(0, k - 3):k + 3], impl=pi[max(0, k - 3):k + 3],
                      model_len=len(pm), impl_len=len(pi))
        return kind, detail, len(impl), None
    items = [x for x in impl if x[0] != 'E']
    if items and not (items[-1][1] if items[-1][0] == 'M' else items[-1][2]):
        return "ends_inside_batch", dict(last=items[-1]), len(impl), None
    if with_batches:
        # the same sampler object iterated a second time must produce the same stream (no state leaks between runs)
        try:
            del log[:]
            impl2, overrun2 = ic.impl_events(s, log, horizon)
        except Exception as e:
            return f"second_iteration_exception:{type(e).__name__}", repr(e), len(impl), None
        if impl2 != impl:
            k = ic.first_diff(impl, impl2)
            return "second_iteration_of_same_object_differs", dict(first_diff_at=k, first=impl[max(0, k - 2):k + 3],
                                                                   second=impl2[max(0, k - 2):k + 3]), len(impl), None
        try:
            s2, log2 = ic.build(geo, bud, cfgs, plain=plain)
            got = [list(b) for b in s2.batch_sampler]
        except AssertionError as e:
            return "batch_sampler_ends_inside_batch", repr(e), len(impl), None
        # an iteration that is abandoned part-way (a peek at the first batch, a break, an exception in the training loop)
        # must leave nothing behind: the next full pass over the same object equals the pass of a fresh object
        for k in sorted({1, len(got) // 2} - {0}):
            if k >= len(got):
                continue
            try:
                it = iter(s2.batch_sampler)
                for _ in range(k):
                    next(it)
                del it
                again = [list(b) for b in s2.batch_sampler]
            except Exception as e:
                return f"iteration_after_abandoned_one_exception:{type(e).__name__}", repr(e), len(impl), None
            if again != got:
                d = next((i for i, (a, b) in enumerate(zip(again, got)) if a != b), min(len(again), len(got)))
                return "batches_after_abandoned_iteration_differ", dict(abandoned_after_batches=k, first_diff_at=d, fresh=got[d:d + 3],
                                                                        after=again[d:d + 3]), len(impl), None
            try:
                it = iter(s2)
                for _ in range(k):
                    next(it)
                del it
                del log2[:]
                impl3, _ = ic.impl_events(s2, log2, horizon)
            except Exception as e:
                return f"iteration_after_abandoned_one_exception:{type(e).__name__}", repr(e), len(impl), None
            if impl3 != impl:
                d = ic.first_diff(impl, impl3)
                return "stream_after_abandoned_iteration_differs", dict(abandoned_after_items=k, first_diff_at=d, fresh=impl[max(0, d - 2):d + 3],
                                                                       after=impl3[max(0, d - 2):d + 3]), len(impl), None
        exp, rest = ref.batches(model)
        exp = [[x[2] for x in b] for b in exp]
        if rest or got != exp:
            # only main batches are C04's business: compare the batches made of main indices
            lim = geo[0] * ic.MAIN_DLEN_FACTOR
            gm = [b for b in got if all(i < lim for i in b)]
            em = [b for b in exp if all(i < lim for i in b)]
            if gm != em:
                return "batch_sampler_main_batches", dict(model=em[:6], impl=gm[:6]), len(impl), None
    return None, None, len(impl), pm


def task(args):
    geo, tier, seed = args
    b = bounds(tier)
    p = Partial()
    states = set()
    work = [(bud, cfgs) for bud in ic.budgets(geo) for cfgs in config_sets(b["pairs"], seed)]
    if geo[0] <= ic.DEEP_N:
        # long runs of small geometries (late epochs: counters far from their start values), no / one side config
        work += [(bud, cfgs) for bud in ic.deep_budgets(geo) for cfgs in config_sets(b["pairs"], seed) if len(cfgs) <= 1]
    for bud, cfgs in work:
        if True:
            for plain in ((False, True) if not cfgs else (False,)):
                kind, detail, ntr, proj = check_one(geo, bud, cfgs, plain=plain, with_batches=len(cfgs) <= 1,
                                                    states=states)
                p.evaluations += 1
                p.traces += 1
                p.transitions += ntr
                if kind is not None:
                    case = dict(geo=geo, bud=bud, cfgs=cfgs, plain=plain)
                    p.violation(signature(kind, geo, bud, cfgs), case, f"{kind}: {detail}")
                elif proj is not None:
                    p.observe((geo, tuple(proj)))
    for st in states:
        p.state((geo,) + st)
    p.sample(dict(geo=geo, bud=('samples', 2 * geo[0] + 1), cfgs=config_sets(b["pairs"], seed)[3]))
    return p


def run(run):
    b = bounds(run.tier)
    geos = list(ic.geometries(b["maxN"]))
    geos.sort(key=lambda g: -g[0])  # big ones first for load balance
    run.pmap(task, [(g, run.tier, run.seed) for g in geos])
    run.extra.update(bounds=dict(N=f"1..{b['maxN']}", B="1..N", drop_last="F,T", dlbs="None or kB<=N",
                                 epochs="1..3 (+5, 7 and the matching update / sample budgets for N<=4)", updates="1..2*ceil(N/B)+1", samples="1..2N+1",
                                 config_sets=len(config_sets(b['pairs'], run.seed))),
                     geometries=len(geos))
    run.assumptions += [
        "main sampler yields exactly len(sampler) indices per iteration (stated domain)",
        "model and implementation are both driven with harness samplers whose indices encode the epoch",
    ]


def replay(case):
    geo = tuple(case["geo"])
    bud = tuple(case["bud"])
    cfgs = tuple(tuple(c) for c in case["cfgs"])
    kind, detail, _, _ = check_one(geo, bud, cfgs, plain=case.get("plain", False), with_batches=True)
    return None if kind is None else f"{kind}: {detail}"
