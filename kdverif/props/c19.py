"""C19 - in-memory cache is transparent for every access history (E4: all interleavings at shared-dict granularity)."""
import itertools

from ..core.explorer import Chooser, explore
from ..core.runner import Partial
from ..core.sched import SchedDict, Scheduler

LEVEL = "model_checking"
RULE = ("readers R in 1..3 (real threads running the real SharedDictDataset.__getitem__/dispose under a controlled scheduler), "
        "programs of <= 2 accesses over indices {0,1} (forced to collide) with an optional clear at any position of any reader, "
        "payload types int / (bytes,int) / tensor / dict / list, post-cache transform none / pure / in-place; every schedule at "
        "shared-dict-operation granularity with preemption bound 0,1,2,... (unbounded where the count allows); sequential "
        "histories (no concurrency, readers take turns): all sequences of (reader, op) with op in {get0, get1, get(-1), [one reader: "
        "get(-2), out-of-range get(2), get(-3), a dataloader batch fetch over (0,1) / (1,1) through torch's map-style fetcher], clear, "
        "release = the "
        "reader object is garbage collected} of length <= 4 "
        "for 1 and 2 readers and <= 3 for 3 readers, with exact load accounting over all readers; readers are copies of ONE cache "
        "object (fork picture: deep copy - private attributes duplicated, manager dicts shared; spawn picture: pickle round trip; "
        "the post-cache transform travels with the copy), also with a wrapped dataset whose first load of "
        "every sample fails (the error must reach the caller, nothing may be cached, the retry loads); states = distinct final "
        "(cache content, load counters) states, transitions = scheduled shared-dict operations; SchedDict is bound to the real "
        "multiprocessing Manager dict by replaying all operation sequences of depth <= 3 against both")

PAYLOADS = ("int", "tuple", "tensor", "dict", "list", "falsy")
FLAKY = [False]  # True (sequential histories only): the first load of every sample fails (an I/O error of the wrapped dataset)


class LoadError(Exception):
    pass

TRANSFORMS = ("none", "pure", "inplace")


def payload(kind, i):
    import torch
    if kind == "int":
        return 100 + i
    if kind == "tuple":
        return (bytes([i, i + 1]), i)
    if kind == "tensor":
        return torch.tensor([float(i), 2.0])
    if kind == "dict":
        return {"a": i, "b": [i, i]}
    if kind == "list":
        return [i, [i + 1]]
    if kind == "falsy":
        return None if i == 0 else 0  # whole-sample payloads that are None / falsy (picklable like any other)
    raise ValueError(kind)


def apply_expected(tkind, v):
    import torch
    if tkind == "none":
        return v
    if v is None:
        return ("was_none",)
    if isinstance(v, int):
        return v + 1000
    if torch.is_tensor(v):
        return v + 1000
    if isinstance(v, tuple):
        return v + ("t",)
    if isinstance(v, dict):
        return dict(v, t=1)
    if isinstance(v, list):
        return v + ["t"]


def same(a, b):
    import torch
    if torch.is_tensor(a) or torch.is_tensor(b):
        return torch.is_tensor(a) and torch.is_tensor(b) and a.shape == b.shape and torch.equal(a, b)
    return a == b


class Xf:
    """The post-cache transform: a picklable object (it travels with the cache object into spawned readers). Calls are
    counted per execution in a class-level table, so copies of the transform count into the same cell."""
    CALLS = {}

    def __init__(self, tkind, token):
        self.tkind, self.token = tkind, token

    def __call__(self, v):
        import torch
        Xf.CALLS[self.token] = Xf.CALLS.get(self.token, 0) + 1
        if self.tkind == "inplace":
            if isinstance(v, dict):
                v["t"] = 1
                return v
            if isinstance(v, list):
                v.append("t")
                return v
            if torch.is_tensor(v):
                v += 1000
                return v
        return apply_expected("pure", v)


COPY_HOW = ["deepcopy"]  # how a reader gets its copy of the cache object: 'deepcopy' (fork) or 'pickle' (spawn / forkserver)
TOKEN = [0]


def make_transform(tkind, counter):
    import torch
    if tkind == "none":
        return None

    def pure(v):
        counter[0] += 1
        return apply_expected("pure", v)

    def inplace(v):
        counter[0] += 1
        if isinstance(v, dict):
            v["t"] = 1
            return v
        if isinstance(v, list):
            v.append("t")
            return v
        if torch.is_tensor(v):
            v += 1000
            return v
        return apply_expected("pure", v)

    return pure if tkind == "pure" else inplace


class Base:
    """The wrapped dataset: returns fresh objects (like a dataset that loads from disk) and counts loads. Like torch's Subset
    (and KDSubset) it offers the batched fetch protocol __getitems__ that dataloaders prefer when a dataset has it."""

    def __getitems__(self, idxs):
        return [self[i] for i in idxs]

    def __init__(self, kind):
        self.kind = kind
        self.loads = []

    def __len__(self):
        return 2

    def __getitem__(self, i):
        # a list-backed dataset: negative indices count from the end, anything outside [-len, len) raises
        self.loads.append(i)
        if not -2 <= i < 2:
            raise IndexError(i)
        if FLAKY[0] and self.loads.count(i) == 1:
            raise LoadError(i)
        return payload(self.kind, i % 2)


CURRENT = {"sched": None, "dicts": []}


class FakeManager:
    """Stands in for multiprocessing.Manager(): every .dict() is a fresh SchedDict bound to the running scheduler."""

    def __init__(self, *a, **k):
        pass

    def dict(self, *a, **k):
        d = SchedDict()
        d.sched = CURRENT["sched"]
        if a or k:
            for key, v in dict(*a, **k).items():
                d._d[key] = __import__("pickle").dumps(v)
        CURRENT["dicts"].append(d)
        return d

    def start(self, *a, **k):
        pass

    def shutdown(self):
        pass

    def __enter__(self):
        return self

    def __exit__(self, *a):
        return False


class patched:
    """Manager is replaced for the whole execution (construction, accesses, clears), wherever the library looks it up."""

    def __init__(self, sched):
        self.sched = sched

    def __enter__(self):
        import multiprocessing
        import kappadata.caching.shared_dict_dataset as mod
        self.saved = (mod.__dict__.get("Manager"), multiprocessing.Manager)
        if "Manager" in mod.__dict__:
            mod.Manager = FakeManager
        multiprocessing.Manager = FakeManager
        CURRENT["sched"] = self.sched
        CURRENT["dicts"] = []
        from ..core import sched as _sched
        _sched._PROXIES.clear()
        # a manager object the library may have memoised at module level belongs to an earlier execution
        for k, v in list(mod.__dict__.items()):
            if isinstance(v, FakeManager):
                mod.__dict__[k] = None
        return self

    def __exit__(self, *a):
        import multiprocessing
        import kappadata.caching.shared_dict_dataset as mod
        if self.saved[0] is not None:
            mod.Manager = self.saved[0]
        multiprocessing.Manager = self.saved[1]
        CURRENT["sched"] = None
        return False


def make_readers(n, kind, tkind):
    """One cache object is built, then copied once per reader: the picture of forked DataLoader workers. Everything a process
    owns privately (the wrapped dataset and its load counter, attributes of the cache object) is duplicated by the copy;
    manager dicts are proxies, so the copies still refer to the same dict. Call inside `patched`."""
    import copy
    import pickle
    import kappadata.caching.shared_dict_dataset as mod
    TOKEN[0] += 1
    Xf.CALLS.pop(TOKEN[0] - 1, None)
    Xf.CALLS[TOKEN[0]] = 0
    master = mod.SharedDictDataset(Base(kind), transform=None if tkind == "none" else Xf(tkind, TOKEN[0]))
    readers = []
    for _ in range(n):
        # the copy is all a reader gets: nothing is patched onto it afterwards
        r = copy.deepcopy(master) if COPY_HOW[0] == "deepcopy" else pickle.loads(pickle.dumps(master))
        readers.append(r)
    return readers


def transform_calls():
    return Xf.CALLS.get(TOKEN[0], 0)


def shared_snapshot():
    return tuple(tuple(sorted(d.snapshot().keys())) for d in CURRENT["dicts"])


def run_schedule(programs, kind, tkind, chooser, bound):
    sched = Scheduler(chooser, bound)
    results = [[] for _ in programs]
    with patched(sched):
        readers = make_readers(len(programs), kind, tkind)

        def body(r, prog, out):
            def fn():
                for op in prog:
                    if op == "clear":
                        try:
                            r.dispose()
                            out.append(("clear", None, None))
                        except Exception as e:
                            out.append(("exc", "clear", e))
                    else:
                        try:
                            out.append(("get", op, r[op]))
                        except Exception as e:
                            out.append(("exc", op, e))
            return fn

        trace = sched.run([body(r, pr, out) for r, pr, out in zip(readers, programs, results)])
        shared = shared_snapshot()
    return results, readers, shared, sched, trace


def check_results(programs, kind, tkind, results, readers, sched):
    """Oracle for one complete execution. Returns (kind, message) or (None, observation)."""
    for t, (prog, res) in enumerate(zip(programs, results)):
        if t in [int(k[1:]) for k in sched.errors]:
            return "reader_crashed", f"reader {t}: {sched.errors[f'T{t}']!r}"
        if len(res) != len(prog):
            return "reader_did_not_finish", f"reader {t}: {len(res)} of {len(prog)} operations"
        n_get = 0
        for (what, i, v) in res:
            if what == "exc":
                return f"access_raised:{type(v).__name__}", f"reader {t} access {i}: {v!r}"
            if what == "get":
                n_get += 1
                exp = apply_expected(tkind, payload(kind, i))
                if not same(v, exp):
                    return "value_differs_from_wrapped_dataset", f"reader {t} cached[{i}] = {v!r}, transform(base[{i}]) = {exp!r}"
    total = sum(1 for res in results for (what, _, _) in res if what == "get")
    if tkind != "none" and transform_calls() != total:
        return "transform_not_applied_once_per_access", f"{transform_calls()} transform calls for {total} accesses"
    return None, None


def sequential_check(ops, kind, tkind, R=1):
    """No concurrency: operations (reader, op) of R readers sharing the cache take turns. Between two clears every sample is
    loaded at most once - by whichever reader asks first - and the first access after a clear (by any reader) loads again."""
    ops = [o if isinstance(o, tuple) else (0, o) for o in ops]
    with patched(None):
        readers = make_readers(R, kind, tkind)
        cached = set()       # index values served since the last clear
        cached_samples = set()  # the underlying samples behind them
        loads_done = {}
        for k, (who, op) in enumerate(ops):
            r = readers[who]
            if op == "release":
                # this reader object goes away (a worker exits, a copy is garbage collected): the shared cache is not its to clear
                loads_done[who] = tuple(r.dataset.loads)
                readers[who] = r = None
                import gc
                gc.collect(0)
                continue
            before = [len(x.dataset.loads) if x is not None else 0 for x in readers]
            if isinstance(op, tuple) and op[0] == "fetch":
                # what a torch DataLoader does for one batch of a map-style dataset
                from torch.utils.data._utils.fetch import _MapDatasetFetcher
                try:
                    vals = _MapDatasetFetcher(r, True, list, False).fetch(list(op[1]))
                except Exception as e:
                    return f"access_raised:{type(e).__name__}", f"ops {ops} step {k}: {e!r}"
                if len(vals) != len(op[1]) or any(not same(v, apply_expected(tkind, payload(kind, i % 2))) for v, i in zip(vals, op[1])):
                    return "value_differs_from_wrapped_dataset", f"ops {ops} step {k}: a dataloader batch over indices {list(op[1])} gives {vals!r}"
                loaded = r.dataset.loads[before[who]:]
                exp_loads, spelled_loads = [], []
                for i in op[1]:
                    if i % 2 not in cached_samples:
                        exp_loads.append(i)
                    if i not in cached:
                        spelled_loads.append(i)
                    cached.add(i)
                    cached_samples.add(i % 2)
                if loaded != exp_loads:
                    if loaded == spelled_loads:
                        return "cached_sample_loaded_again|other_spelling_of_the_index", (
                            f"ops {ops} step {k}: dataloader batch {list(op[1])} loaded {loaded}: a sample that was already loaded "
                            f"under its other index spelling was loaded again")
                    return ("cached_sample_loaded_again" if len(loaded) > len(exp_loads) else "uncached_sample_not_loaded_exactly_once"), \
                        f"ops {ops} step {k}: dataloader batch {list(op[1])} loaded {loaded}, expected {exp_loads}"
                continue
            if op == "clear":
                try:
                    r.dispose()
                except Exception as e:
                    return f"clear_raised:{type(e).__name__}", f"ops {ops} step {k}: {e!r}"
                cached = set()
                cached_samples = set()
                continue
            if not -2 <= op < 2:
                # outside the wrapped dataset: the cache must answer like the dataset (IndexError), and cache nothing
                try:
                    v = r[op]
                except IndexError:
                    continue
                except Exception as e:
                    return f"access_raised:{type(e).__name__}", f"ops {ops} step {k}: {e!r}"
                return "out_of_range_index_served", f"ops {ops} step {k}: the wrapped dataset raises IndexError for {op}, the cache returned {v!r}"
            will_fail = FLAKY[0] and op not in cached and r.dataset.loads.count(op) == 0
            try:
                v = r[op]
            except LoadError as e:
                if not will_fail:
                    return "load_error_not_expected", f"ops {ops} step {k}: {e!r}"
                if r.dataset.loads[before[who]:] != [op]:
                    return "failed_load_not_exactly_one_attempt", f"ops {ops} step {k}: loads {r.dataset.loads[before[who]:]}"
                continue  # the error of the wrapped dataset reaches the caller; nothing is cached
            except Exception as e:
                return f"access_raised:{type(e).__name__}", f"ops {ops} step {k}: {e!r}"
            if will_fail:
                return "load_error_swallowed", f"ops {ops} step {k}: the wrapped dataset raised, the cache returned {v!r}"
            if not same(v, apply_expected(tkind, payload(kind, op % 2))):
                return "value_differs_from_wrapped_dataset", f"ops {ops} step {k}: {v!r}"
            loaded = r.dataset.loads[before[who]:]
            if any(len(x.dataset.loads) != b for i, (x, b) in enumerate(zip(readers, before)) if i != who and x is not None):
                return "other_reader_loaded", f"ops {ops} step {k}"
            if op in cached and loaded:
                return "cached_sample_loaded_again", (f"ops {ops} step {k}: sample {op} was loaded again by reader {who} without a "
                                                      f"clear in between")
            if op not in cached and op % 2 in cached_samples and loaded:
                return "cached_sample_loaded_again|other_spelling_of_the_index", (
                    f"ops {ops} step {k}: index {op} is sample {op % 2}, which was already loaded under its other spelling; reader "
                    f"{who} loaded it again without a clear in between")
            if op % 2 not in cached_samples and loaded != [op]:
                return "uncached_sample_not_loaded_exactly_once", f"ops {ops} step {k}: reader {who} loads {loaded}"
            cached.add(op)
            cached_samples.add(op % 2)
        return None, tuple(tuple(x.dataset.loads) if x is not None else loads_done[i] for i, x in enumerate(readers))


def programs_for(R, tier):
    """All program tuples: each reader <= 2 gets over {0,1}; optionally one clear inserted at any position of any reader."""
    gets = [p for L in (1, 2) for p in itertools.product((0, 1), repeat=L)]
    base = list(itertools.product(gets, repeat=R))
    out = []
    for progs in base:
        # canonical: readers are symmetric -> keep sorted tuples only
        if list(progs) != sorted(progs):
            continue
        out.append(tuple(progs))
        for t in range(R):
            for pos in range(len(progs[t]) + 1):
                q = list(progs)
                q[t] = progs[t][:pos] + ("clear",) + progs[t][pos:]
                out.append(tuple(q))
    if tier == "quick" and R == 3:
        out = [o for o in out if sum(len(p) for p in o) <= 4]
    return out


def task(args):
    R, progs_list, kind, tkind, bounds, cap = args
    p = Partial()
    for progs in progs_list:
        done_bound = None
        for bound in bounds:
            n = 0
            capped = False
            for ch, res in explore(lambda c: run_schedule(progs, kind, tkind, c, bound), cap=cap):
                if ch is None:
                    capped = True
                    break
                n += 1
                results, readers, shared, sched, trace = res
                p.evaluations += 1
                p.traces += 1
                p.transitions += len(trace)
                k, msg = check_results(progs, kind, tkind, results, readers, sched)
                case = dict(programs=[list(x) for x in progs], payload=kind, transform=tkind, schedule=ch.choices, bound=bound)
                if k:
                    p.violation(f"C19:{k}|clear={'yes' if any('clear' in x for x in progs) else 'no'}|readers={'1' if R == 1 else 'many'}",
                                case, f"programs {progs} payload={kind} transform={tkind} schedule {[t for t, _ in trace]}: {msg}")
                else:
                    final = (shared, tuple(tuple(r.dataset.loads) for r in readers))
                    p.state((progs, kind, final))
                    p.observe((progs, kind, tkind, final))
            if capped:
                p.count(f"capped_at_bound_{bound}")
                break
            done_bound = bound
            p.count(f"programs_completed_bound_{bound}")
    p.sample(dict(readers=R, programs=[list(x) for x in progs_list[0]], payload=kind, transform=tkind))
    return p


def seq_task(args):
    kind, tkind = args
    p = Partial()
    for R, maxlen in ((1, 4), (2, 4), (3, 3)):
        alphabet = [(who, op) for who in range(R) for op in ((0, 1, -1, "clear", "release", ("fetch", (0, 1))) if R > 1 else
                                                              (0, 1, -1, -2, 2, -3, "clear", ("fetch", (0, 1)), ("fetch", (1, 1))))]
        for L in range(1, maxlen + 1):
            for ops in itertools.product(alphabet, repeat=L):
                if R > 1 and len({w for w, _ in ops}) < 2:
                    continue  # only one reader acts: already covered with fewer readers
                gone = set()
                valid = True
                for w, o in ops:
                    if w in gone:
                        valid = False
                        break
                    if o == "release":
                        gone.add(w)
                if not valid or (ops and ops[-1][1] == "release"):
                    continue  # a released reader cannot act; a release at the very end is unobservable
                if R == 3 and any(o == -1 or isinstance(o, tuple) for _, o in ops):
                    continue  # three readers: non-negative indices only (bounds the product)
                for flaky in ((False, True) if (R <= 2 and kind in ("int", "list") and all(o in (0, 1, "clear", "release") for _, o in ops if not isinstance(o, tuple)) and not any(isinstance(o, tuple) for _, o in ops))
                              else (False,)):
                  # readers that got their copy through pickle (spawn / forkserver) for two payload kinds and short histories
                  for how in (("deepcopy", "pickle") if (kind in ("int", "tensor") and L <= 3 and not flaky) else ("deepcopy",)):
                    p.evaluations += 1
                    p.traces += 1
                    p.transitions += L
                    FLAKY[0] = flaky
                    COPY_HOW[0] = how
                    try:
                        k, info = sequential_check(ops, kind, tkind, R)
                    finally:
                        FLAKY[0] = False
                        COPY_HOW[0] = "deepcopy"
                    if k:
                        p.violation(f"C19:sequential:{k}|readers={'1' if R == 1 else 'many'}{'|failing_loads' if flaky else ''}"
                                    f"{'|pickled_copy' if how == 'pickle' and 'other_spelling' not in k else ''}",
                                    dict(sequential=True, ops=[list(o) for o in ops], readers=R, payload=kind, transform=tkind, flaky=flaky, how=how),
                                    f"payload={kind} transform={tkind} readers={R} failing_first_loads={flaky} copy={how}: {info}")
                    else:
                        p.state(("seq", kind, R, ops, info, flaky, how))
                        p.observe(("seq", kind, tkind, R, ops, flaky, how))
    return p


def conformance(_):
    """Bind SchedDict to the real thing: all operation sequences of depth <= 3 against a real Manager().dict()."""
    from multiprocessing import Manager
    p = Partial()
    ops = [(o, k) for o in ("contains", "get", "set") for k in (0, 1)] + [("clear", None)]
    with Manager() as m:
        for L in (1, 2, 3):
            for seq in itertools.product(ops, repeat=L):
                real = m.dict()
                fake = SchedDict()
                for step, (o, k) in enumerate(seq):
                    outs = []
                    for d in (real, fake):
                        try:
                            if o == "contains":
                                outs.append(("ok", k in d))
                            elif o == "get":
                                outs.append(("ok", d[k]))
                            elif o == "set":
                                d[k] = [step, k]
                                outs.append(("ok", None))
                            else:
                                d.clear()
                                outs.append(("ok", None))
                        except KeyError:
                            outs.append(("KeyError", None))
                    if outs[0] != outs[1]:
                        raise RuntimeError(f"harness: SchedDict does not conform to Manager().dict() on {seq}: {outs}")
                p.count("conformance_sequences")
    return p


def run(run):
    tier = run.tier
    tasks = []
    kinds = PAYLOADS
    for R in (1, 2, 3):
        progs = programs_for(R, tier)
        if tier == "quick":
            bounds = (0, 1, 2, None) if R == 1 else ((0, 1, 2) if R == 2 else (0, 1))
        else:
            bounds = (0, 1, 2, None) if R <= 2 else (0, 1, 2)
        cap = 3000 if tier == "quick" else 60000
        for ki, kind in enumerate(kinds):
            for ti, tkind in enumerate(TRANSFORMS):
                if tier == "quick" and R >= 2 and (ki + ti + run.seed) % 3 != 0:
                    continue  # quick: every payload x transform pair for R=1, a rotating third for R>=2
                for i in range(0, len(progs), 12):
                    tasks.append((R, progs[i:i + 12], kind, tkind, bounds, cap))
    run.pmap(task, tasks)
    run.pmap(seq_task, [(k, t) for k in kinds for t in TRANSFORMS])
    conf = conformance(0)
    run.merge(conf)
    capped = sum(v for k, v in run.counters.items() if k.startswith("capped_at_bound"))
    run.exhaustive = capped == 0
    run.extra.update(bounds=dict(readers="1..3", accesses_per_reader="<=2 (+ one clear)", indices=[0, 1],
                                 preemption_bounds="0,1,2,unbounded (R<=2); 0,1[,2] (R=3)", payloads=list(PAYLOADS),
                                 transforms=list(TRANSFORMS), sequential_history_length="<=4 (1-2 readers), <=3 (3 readers)"),
                     scheddict_conformance_sequences=run.counters.get("conformance_sequences", 0))
    run.assumptions += [
        "atomicity model: each Manager-dict proxy call is one atomic step; everything else in a reader is process-private",
        "the wrapped dataset returns fresh objects per load; readers are copies sharing only the dict (forked workers)",
        "the wrapped harness dataset is list-like: negative indices count from the end, indices outside [-len, len) raise IndexError",
    ]


def replay(case):
    if case.get("sequential"):
        ops = tuple((int(o[0]), o[1] if o[1] in ("clear", "release") else (("fetch", tuple(o[1][1])) if isinstance(o[1], (list, tuple)) else int(o[1]))) if isinstance(o, (list, tuple)) else (0, o if o == "clear" else int(o))
                    for o in case["ops"])
        FLAKY[0] = bool(case.get("flaky"))
        COPY_HOW[0] = case.get("how") or "deepcopy"
        try:
            k, info = sequential_check(ops, case["payload"], case["transform"], int(case.get("readers", 1)))
        finally:
            FLAKY[0] = False
            COPY_HOW[0] = "deepcopy"
        return None if k is None else f"{k}: {info}"
    progs = tuple(tuple(o if o == "clear" else int(o) for o in pr) for pr in case["programs"])
    res = run_schedule(progs, case["payload"], case["transform"], Chooser(tuple(case["schedule"])), case.get("bound"))
    # replay twice: identical observations required before trusting the failure
    res2 = run_schedule(progs, case["payload"], case["transform"], Chooser(tuple(case["schedule"])), case.get("bound"))
    if [t for t in res[4]] != [t for t in res2[4]]:
        return "harness: replay of the recorded schedule is not deterministic"
    k, msg = check_results(progs, case["payload"], case["transform"], res[0], res[1], res[3])
    return None if k is None else f"{k}: {msg}"
