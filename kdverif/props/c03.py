"""C03 - each dataset-manipulation wrapper selects exactly the promised samples (E1 product vs per-wrapper spec)."""
import itertools
import sys

from ..core.runner import Partial

LEVEL = "exploration"
RULE = ("every class layout of length 0..L over 3 classes (declared class count 3, so empty / single-sample / absent classes "
        "occur) x the full small parameter grid of every subset-family wrapper (class filter, percent filter, subset, shuffle, "
        "repeat, oversampling, sort-by-class, intra-class shuffle, few-shot, class-wise subset); selected sample ids compared "
        "with a per-wrapper specification (exact where documented, relational - contiguity, monotonicity, complementary "
        "partition - where rounding is undocumented); every wrapper also stacked on a reversing sub-selection of a larger root "
        "(layouts up to length 4); a few long layouts (17..100 samples; thorough up to 1000) for size-dependent library routines; "
        "constructors run under a CPU-time horizon; distinct = distinct "
        "(wrapper, parameters, layout, selected ids) with a non-empty selection")

PERCENTS = (None, 0, 0.0, .15, .2, 1 / 3, .5, .99, 1, 1.0)
HORIZON = 200_000
HORIZON_S = 4.0
_LIB = {}


class Horizon(BaseException):
    pass


def with_horizon(fn):
    """Run fn() under a CPU-time budget of this process (ITIMER_VIRTUAL counts user CPU time only, so machine load does not
    matter): a constructor needs well under a millisecond; exceeding HORIZON_S seconds of CPU means 'does not terminate'."""
    import signal

    def on_alarm(signum, frame):
        raise Horizon()

    old = signal.signal(signal.SIGVTALRM, on_alarm)
    signal.setitimer(signal.ITIMER_VIRTUAL, HORIZON_S)
    try:
        return fn()
    finally:
        signal.setitimer(signal.ITIMER_VIRTUAL, 0)
        signal.signal(signal.SIGVTALRM, old)


def lib():
    if _LIB:
        return _LIB
    import numpy as np
    import torch
    from kappadata.datasets.kd_dataset import KDDataset
    import kappadata.wrappers.dataset_wrappers as dw

    class ClsDS(KDDataset):
        def __init__(self, layout):
            super().__init__()
            self.layout = list(layout)
            self.class_names = ["zero", "one", "two"]

        def __len__(self):
            return len(self.layout)

        def getitem_x(self, idx, ctx=None):
            return list(range(len(self.layout)))[idx]

        def getall_class(self):
            if LABEL_CONTAINER[0] is not None:
                # labels stored compactly (image datasets keep uint8 / int8 target arrays)
                return np.array(self.layout, dtype=getattr(np, LABEL_CONTAINER[0]))
            return list(self.layout)

        def getitem_class(self, idx, ctx=None):
            if LABEL_CONTAINER[0] is not None:
                return np.array(self.layout, dtype=getattr(np, LABEL_CONTAINER[0]))[idx]
            return self.layout[idx]

        def getshape_class(self):
            return (3,)

    _LIB.update(np=np, torch=torch, ClsDS=ClsDS, dw=dw)
    return _LIB


REJECT = (AssertionError, NotImplementedError, ValueError)
LABEL_CONTAINER = [None]  # None: python ints / list; "uint8" / "int8": numpy label storage
STACKED = [False]  # True: the wrapper under test does not wrap the root dataset but a reversing sub-selection of a larger root


def construct(name, layout, kwargs, rng_state=0):
    """-> ('ok', ids) | ('rejected', type) | ('crash', repr) | ('hang', None)"""
    L = lib()
    np = L["np"]
    np.random.seed(1000 + rng_state)
    L["torch"].manual_seed(1000 + rng_state)
    n = len(layout)
    if STACKED[0]:
        # root: [extra class-0 sample] + reversed(layout) + [extra class-2 sample]; the view below the wrapper under test selects
        # root ids n, n-1, ..., 1 - so position i of the view is root sample n - i and has class layout[i]
        ds = L["dw"].SubsetWrapper(L["ClsDS"]([0] + list(reversed(layout)) + [2]), indices=[n - i for i in range(n)])
    else:
        ds = L["ClsDS"](layout)
    cls = getattr(L["dw"], name, None)
    if cls is None:
        import importlib
        import re
        mod = re.sub(r"(?<!^)(?=[A-Z])", "_", name).lower()
        cls = getattr(importlib.import_module(f"kappadata.wrappers.dataset_wrappers.{mod}"), name)
    try:
        w = with_horizon(lambda: cls(ds, **kwargs))
        ids = [int(w.getitem_x(i)) for i in range(len(w))]
        if STACKED[0]:
            if any(not (1 <= r <= n) for r in ids):
                return "crash", f"StackedSelection: sample ids {ids} outside the view below the wrapper (root ids 1..{n})"
            ids = [n - r for r in ids]
        return "ok", ids
    except Horizon:
        return "hang", None
    except REJECT as e:
        return "rejected", type(e).__name__
    except Exception as e:
        return "crash", f"{type(e).__name__}: {e}"


def is_contig(ids, n):
    return ids == list(range(ids[0], ids[0] + len(ids))) if ids else True


class Checker:
    def __init__(self, p, layout):
        self.p = p
        self.layout = tuple(layout)
        self.n = len(layout)

    def bad(self, wrapper, what, kwargs, msg, extra=""):
        if STACKED[0]:
            extra += "|stacked"
        if LABEL_CONTAINER[0]:
            extra += f"|labels={LABEL_CONTAINER[0]}"
        self.p.violation(f"C03:{wrapper}:{what}{extra}", dict(wrapper=wrapper, layout=self.layout, kwargs=kwargs, stacked=STACKED[0]),
                         f"{wrapper}({kwargs}) on classes {list(self.layout)}: {msg}")

    def get(self, wrapper, kwargs, rng_state=0, allow_reject=True):
        st, val = construct(wrapper, self.layout, kwargs, rng_state)
        self.p.evaluations += 1
        if st == "ok":
            if val:
                self.p.observe((wrapper, tuple(sorted((k, repr(v)) for k, v in kwargs.items())), self.layout, tuple(val), STACKED[0]))
            return val
        if st == "rejected":
            self.p.count(f"rejected:{wrapper}")
            return None
        if st == "hang":
            self.bad(wrapper, "does_not_terminate", kwargs, f"constructor used more than {HORIZON_S} s of CPU time")
            return None
        kind = val.split(":")[0]
        self.bad(wrapper, f"crash:{kind}", kwargs, val, extra="|" + "+".join(sorted(k for k, v in kwargs.items() if v is not None)))
        return None

    # ------------------------------------------------------------------ per wrapper
    def class_filter(self):
        n, lay = self.n, self.layout
        subsets = [list(s) for r in range(0, 4) for s in itertools.combinations(range(3), r)]
        names = ["zero", "one", "two"]
        for V in subsets:
            for key in ("valid_classes", "invalid_classes", "valid_class_names", "invalid_class_names"):
                arg = V if key.endswith("classes") else [names[v] for v in V]
                ids = self.get("ClassFilterWrapper", {key: arg})
                if ids is None:
                    continue
                keep = (lambda c: c in V) if key.startswith("valid") else (lambda c: c not in V)
                exp = [i for i in range(n) if keep(lay[i])]
                if ids != exp:
                    self.bad("ClassFilterWrapper", "wrong_selection", {key: arg}, f"expected {exp} got {ids}", f"|{key}")

    def class_filter_sparse(self):
        """Large, sparse label space with long class lists (numpy picks another membership algorithm there)."""
        L = lib()
        n, lay = self.n, self.layout
        if n == 0:
            return
        ids = (3, 500, 700)
        sparse = tuple(ids[c] for c in lay)
        others = [9, 41, 77, 120, 166, 230, 305, 377, 431, 612, 655, 808, 850, 905, 960]
        for keep in ([], [3], [500], [700], [3, 700], [500, 700]):
            V = sorted(others + keep)
            for key in ("valid_classes", "invalid_classes"):
                L["np"].random.seed(5)
                ds = L["ClsDS"](sparse)
                ds.getshape_class = lambda: (1000,)
                self.p.evaluations += 1
                try:
                    w = L["dw"].ClassFilterWrapper(ds, **{key: V})
                    got = [int(w.getitem_x(i)) for i in range(len(w))]
                except REJECT:
                    continue
                except Exception as e:
                    self.bad("ClassFilterWrapper", f"crash:{type(e).__name__}", {key: V}, repr(e), "|sparse_ids")
                    continue
                exp = [i for i in range(n) if (sparse[i] in V) == (key == "valid_classes")]
                if got != exp:
                    self.p.violation(f"C03:ClassFilterWrapper:wrong_selection|{key}|sparse_ids",
                                     dict(wrapper="ClassFilterWrapper", layout=list(sparse), kwargs={key: V}, sparse=True),
                                     f"ClassFilterWrapper({key}={V}) on classes {list(sparse)}: expected {exp} got {got}")
                else:
                    self.p.observe(("ClassFilterWrapper", key, tuple(V), sparse, tuple(got)))

    def percent_filter(self):
        n = self.n
        full = list(range(n))
        for cf, ct in itertools.product((False, True), repeat=2):
            res = {}
            for f, t in itertools.product(PERCENTS, repeat=2):
                kw = dict(from_percent=f, to_percent=t, ceil_from_index=cf, ceil_to_index=ct)
                ids = self.get("PercentFilterWrapper", kw)
                if ids is None:
                    continue
                res[(f, t)] = ids
                if not is_contig(ids, n) or any(i < 0 or i >= n for i in ids):
                    self.bad("PercentFilterWrapper", "not_contiguous_subrange", kw, f"got {ids}")
            for fz in (None, 0, 0.0):
                for to in (None, 1, 1.0):
                    if (fz, to) in res and res[(fz, to)] != full:
                        self.bad("PercentFilterWrapper", "full_range_not_everything", dict(from_percent=fz, to_percent=to),
                                 f"got {res[(fz, to)]}")
            # complementary ranges partition the dataset (same rounding flag on the shared bound)
            if cf == ct:
                for p in PERCENTS:
                    if p is None:
                        continue
                    a, b = res.get((None, p)), res.get((p, None))
                    if a is None or b is None:
                        continue
                    if a + b != full:
                        self.bad("PercentFilterWrapper", "complement_not_partition",
                                 dict(p=p, ceil=cf), f"to={p} gives {a}, from={p} gives {b}; together not {full}",
                                 f"|p={'0' if p == 0 else '1' if p == 1 else 'inner'}")
            # monotone in both bounds
            nums = sorted({float(p) for p in PERCENTS if p is not None})
            for a, b in zip(nums, nums[1:]):
                ra, rb = res.get((None, a)), res.get((None, b))
                if ra is not None and rb is not None and len(ra) > len(rb):
                    self.bad("PercentFilterWrapper", "to_not_monotone", dict(a=a, b=b, ceil=ct), f"{ra} vs {rb}",
                             f"|a={'0' if a == 0 else 'inner'}")
                ra, rb = res.get((a, None)), res.get((b, None))
                if ra is not None and rb is not None and len(ra) < len(rb):
                    self.bad("PercentFilterWrapper", "from_not_monotone", dict(a=a, b=b, ceil=cf), f"{ra} vs {rb}")

    def subset(self):
        n = self.n
        full = list(range(n))
        bounds = [None] + list(range(0, n + 2))
        res = {}
        for s, e in itertools.product(bounds, repeat=2):
            if s is None and e is None:
                continue
            kw = dict(start_index=s, end_index=e)
            ids = self.get("SubsetWrapper", kw)
            if ids is None:
                continue
            res[(s, e)] = ids
            exp = full[(s or 0):(n if e is None else e)]
            if ids != exp:
                self.bad("SubsetWrapper", "index_range_wrong", kw, f"expected {exp} got {ids}",
                         f"|end={'0' if e == 0 else 'other'}")
        for k in range(0, n + 1):
            a, b = res.get((None, k)), res.get((k, None))
            if a is not None and b is not None and a + b != full:
                self.bad("SubsetWrapper", "index_complement_not_partition", dict(k=k), f"{a} + {b} != {full}",
                         f"|k={'0' if k == 0 else 'other'}")
        pres = {}
        for s, e in itertools.product(PERCENTS, repeat=2):
            if s is None and e is None:
                continue
            kw = dict(start_percent=s, end_percent=e)
            ids = self.get("SubsetWrapper", kw)
            if ids is None:
                continue
            pres[(s, e)] = ids
            if not is_contig(ids, n) or any(i < 0 or i >= n for i in ids):
                self.bad("SubsetWrapper", "percent_not_contiguous_subrange", kw, f"got {ids}")
        for p in PERCENTS:
            if p is None:
                continue
            a, b = pres.get((None, p)), pres.get((p, None))
            if a is not None and b is not None and a + b != full:
                self.bad("SubsetWrapper", "percent_complement_not_partition", dict(p=p), f"{a} + {b} != {full}",
                         f"|p={'0' if p == 0 else '1' if p == 1 else 'inner'}")
        for idxs in ([], [0], [-1], [n - 1, 0], list(range(n))[::-1], [0, 0], [-n, n - 1]):
            if any(i < -n or i >= n for i in idxs):
                continue
            ids = self.get("SubsetWrapper", dict(indices=idxs))
            if ids is not None and ids != [full[i] for i in idxs]:
                self.bad("SubsetWrapper", "explicit_indices_wrong", dict(indices=idxs), f"got {ids}")

    def subset_long(self):
        n = self.n
        full = list(range(n))
        for s_, e in ((None, n // 2), (n // 2, None), (3, n - 3), (0, 17), (16, 17)):
            ids = self.get("SubsetWrapper", dict(start_index=s_, end_index=e))
            if ids is not None and ids != full[(s_ or 0):(n if e is None else e)]:
                self.bad("SubsetWrapper", "index_range_wrong", dict(start_index=s_, end_index=e), f"got {ids}", "|long")
        for p_ in (0.5, 1 / 3):
            a, b = self.get("SubsetWrapper", dict(end_percent=p_)), self.get("SubsetWrapper", dict(start_percent=p_))
            if a is not None and b is not None and a + b != full:
                self.bad("SubsetWrapper", "percent_complement_not_partition", dict(p=p_), f"{a} + {b}", "|long")
            a, b = self.get("PercentFilterWrapper", dict(to_percent=p_)), self.get("PercentFilterWrapper", dict(from_percent=p_))
            if a is not None and b is not None and a + b != full:
                self.bad("PercentFilterWrapper", "complement_not_partition", dict(p=p_), f"{a} + {b}", "|long")
        ids = self.get("SubsetWrapper", dict(indices=full[::-1]))
        if ids is not None and ids != full[::-1]:
            self.bad("SubsetWrapper", "explicit_indices_wrong", dict(indices="reversed"), f"got {ids}", "|long")

    def classwise_subset_long(self):
        n, lay = self.n, self.layout
        members = [[i for i in range(n) if lay[i] == c] for c in range(3)]
        m = min(len(x) for x in members)
        for s_, e in ((None, m), (1, m), (None, 1), (m // 2, m)):
            kw = dict(start_index=s_, end_index=e)
            ids = self.get("ClasswiseSubsetWrapper", kw)
            exp = [i for c in range(3) for i in members[c][(s_ or 0):e]]
            if ids is not None and ids != exp:
                self.bad("ClasswiseSubsetWrapper", "index_slice_wrong", kw, f"expected {exp} got {ids}", "|long")
        # every percent k/100: the two bounds of complementary ranges must be computed alike (float rounding of
        # percent x count differs between float32 and float64 for some pairs, first at counts >= 50)
        for k in range(1, 100):
            p_ = k / 100
            a = self.get("ClasswiseSubsetWrapper", dict(end_percent=p_))
            b = self.get("ClasswiseSubsetWrapper", dict(start_percent=p_))
            if a is not None and b is not None and sorted(a + b) != list(range(n)):
                missing = sorted(set(range(n)) - set(a + b))
                twice = sorted(i for i in set(a) if i in set(b))
                self.bad("ClasswiseSubsetWrapper", "percent_complement_not_partition", dict(p=p_),
                         f"p={p_}: samples in neither part {missing[:5]}, in both {twice[:5]}", "|long")
                break

    def shuffle(self):
        n = self.n
        for seed in (None, 0, 1, 2):
            a = self.get("ShuffleWrapper", dict(seed=seed), rng_state=0)
            b = self.get("ShuffleWrapper", dict(seed=seed), rng_state=1)
            for ids in (a, b):
                if ids is not None and sorted(ids) != list(range(n)):
                    self.bad("ShuffleWrapper", "not_a_permutation", dict(seed=seed), f"got {ids}")
            if seed is not None and a is not None and b is not None and a != b:
                self.bad("ShuffleWrapper", "seed_not_reproducible", dict(seed=seed), f"{a} vs {b} under different global RNG")

    def repeat(self):
        n = self.n
        for r in (1, 2, 3):
            ids = self.get("RepeatWrapper", dict(repetitions=r))
            if ids is not None and ids != list(range(n)) * r:
                self.bad("RepeatWrapper", "not_round_robin_copies", dict(repetitions=r), f"got {ids}")
        for m in range(1, 2 * n + 2):
            ids = self.get("RepeatWrapper", dict(min_size=m))
            if ids is None:
                continue
            r = -(-m // n)
            if ids != list(range(n)) * r:
                self.bad("RepeatWrapper", "min_size_wrong", dict(min_size=m), f"expected {r} whole copies, got {ids}")

    def oversampling(self):
        n, lay = self.n, self.layout
        cnt = [lay.count(c) for c in range(3)]
        mx = max(cnt) if n else 0
        if n == 0:
            return  # an empty dataset has no class tensor dtype; outside the claimed domain (see DESIGN.md C03)
        for mode in ("multiply", "exact"):
            ids = self.get("OversamplingWrapper", dict(mode=mode))
            if ids is None:
                continue
            if any(i < 0 or i >= n for i in ids) or set(ids) != set(range(n)):
                self.bad("OversamplingWrapper", "loses_samples", dict(mode=mode), f"got {ids}", f"|{mode}")
                continue
            got = [sum(1 for i in ids if lay[i] == c) for c in range(3)]
            for c in range(3):
                if cnt[c] == 0:
                    continue
                exp = cnt[c] * (mx // cnt[c]) if mode == "multiply" else mx
                if got[c] != exp:
                    self.bad("OversamplingWrapper", "class_balance_wrong", dict(mode=mode),
                             f"class {c}: {got[c]} entries, documented {exp}; ids {ids}", f"|{mode}")

    def sort_by_class(self):
        n, lay = self.n, self.layout
        ids = self.get("SortByClassWrapper", {})
        if ids is None:
            return
        exp = [i for c in range(3) for i in range(n) if lay[i] == c]
        if ids != exp:
            self.bad("SortByClassWrapper", "not_stable_class_order", {}, f"expected {exp} got {ids}")

    def intra_class_shuffle(self):
        n, lay = self.n, self.layout
        for seed in (None, 0, 1):
            a = self.get("IntraClassShuffleWrapper", dict(seed=seed), rng_state=0)
            b = self.get("IntraClassShuffleWrapper", dict(seed=seed), rng_state=1)
            for ids in (a, b):
                if ids is None:
                    continue
                if sorted(ids) != list(range(n)):
                    self.bad("IntraClassShuffleWrapper", "not_a_permutation", dict(seed=seed), f"got {ids}")
                elif [lay[i] for i in ids] != list(lay):
                    self.bad("IntraClassShuffleWrapper", "class_sequence_changed", dict(seed=seed), f"got {ids}")
            if seed is not None and a is not None and b is not None and a != b:
                self.bad("IntraClassShuffleWrapper", "seed_not_reproducible", dict(seed=seed), f"{a} vs {b}")

    def fewshot(self):
        n, lay = self.n, self.layout
        for shots in (0, 1, 2, 3):
            for seed in (0, 1):
                a = self.get("FewshotWrapper", dict(num_shots=shots, seed=seed), rng_state=0)
                b = self.get("FewshotWrapper", dict(num_shots=shots, seed=seed), rng_state=1)
                if a is None:
                    continue
                if len(set(a)) != len(a) or any(i < 0 or i >= n for i in a):
                    self.bad("FewshotWrapper", "duplicates_or_out_of_range", dict(num_shots=shots, seed=seed), f"got {a}")
                for c in range(3):
                    got = sum(1 for i in a if lay[i] == c)
                    if got != min(shots, lay.count(c)):
                        self.bad("FewshotWrapper", "wrong_amount_per_class", dict(num_shots=shots, seed=seed),
                                 f"class {c}: {got} != min({shots}, {lay.count(c)}); ids {a}")
                if b is not None and a != b:
                    self.bad("FewshotWrapper", "seed_not_reproducible", dict(num_shots=shots, seed=seed), f"{a} vs {b}")

    def classwise_subset(self):
        n, lay = self.n, self.layout
        members = [[i for i in range(n) if lay[i] == c] for c in range(3)]
        bounds = [None] + list(range(0, n + 1))
        for s, e in itertools.product(bounds, repeat=2):
            if s is None and e is None:
                continue
            for chk in (False, True):
                kw = dict(start_index=s, end_index=e, check_enough_samples=chk)
                ids = self.get("ClasswiseSubsetWrapper", kw)
                if ids is None:
                    continue
                exp = [i for c in range(3) for i in members[c][(s or 0):(n if e is None else e)]]
                if ids != exp:
                    self.bad("ClasswiseSubsetWrapper", "index_slice_wrong", kw, f"expected {exp} got {ids}",
                             f"|end={'0' if e == 0 else 'other'}")
        res = {}
        for s, e in itertools.product(PERCENTS, repeat=2):
            if s is None and e is None:
                continue
            kw = dict(start_percent=s, end_percent=e)
            ids = self.get("ClasswiseSubsetWrapper", kw)
            if ids is None:
                continue
            res[(s, e)] = ids
            # per class: a contiguous slice of that class's members, classes in order
            pos = 0
            ok = True
            for c in range(3):
                mine = [i for i in ids if lay[i] == c]
                if ids[pos:pos + len(mine)] != mine:
                    ok = False
                pos += len(mine)
                if mine and (mine[0] not in members[c] or
                             mine != members[c][members[c].index(mine[0]):members[c].index(mine[0]) + len(mine)]):
                    ok = False
            if any(lay[i] == -1 for i in ids):
                ok = False  # unlabeled samples belong to no class
            if not ok:
                self.bad("ClasswiseSubsetWrapper", "percent_not_per_class_slices", kw, f"got {ids}")
        for p in PERCENTS:
            if p is None:
                continue
            a, b = res.get((None, p)), res.get((p, None))
            if a is not None and b is not None and sorted(a + b) != [i for i in range(n) if lay[i] != -1]:
                self.bad("ClasswiseSubsetWrapper", "percent_complement_not_partition", dict(p=p),
                         f"end={p} gives {a}, start={p} gives {b}", f"|p={'0' if p == 0 else '1' if p == 1 else 'inner'}")

    def oversampling_unlabeled(self):
        """mode='multiply' with unlabeled (-1) samples: labeled classes are balanced, unlabeled samples stay once."""
        n, lay = self.n, self.layout
        cnt = [lay.count(c) for c in range(3)]
        mx = max(cnt)
        if mx == 0:
            return
        ids = self.get("OversamplingWrapper", dict(mode="multiply"))
        if ids is None:
            return
        if any(i < 0 or i >= n for i in ids) or set(ids) != set(range(n)):
            self.bad("OversamplingWrapper", "loses_samples", dict(mode="multiply"), f"got {ids}", "|multiply|unlabeled")
            return
        for c in range(3):
            got = sum(1 for i in ids if lay[i] == c)
            if cnt[c] and got != cnt[c] * (mx // cnt[c]):
                self.bad("OversamplingWrapper", "class_balance_wrong", dict(mode="multiply"),
                         f"class {c}: {got} entries, documented {cnt[c] * (mx // cnt[c])}; ids {ids}", "|multiply|unlabeled")
        if sum(1 for i in ids if lay[i] == -1) != lay.count(-1):
            self.bad("OversamplingWrapper", "unlabeled_changed", dict(mode="multiply"), f"ids {ids}", "|multiply|unlabeled")

    UNLABELED = ("classwise_subset", "oversampling_unlabeled")

    ALL = ("class_filter", "class_filter_sparse", "percent_filter", "subset", "shuffle", "repeat", "oversampling", "sort_by_class",
           "intra_class_shuffle", "fewshot", "classwise_subset")


def layouts(maxlen):
    for L in range(0, maxlen + 1):
        yield from itertools.product(range(3), repeat=L)


def long_layouts(tier):
    """A few long layouts (library routines switch algorithms with the input size: e.g. sorting is insertion sort up to 16
    elements): fixed pseudo-random class sequences, plus one with unlabeled samples for the wrappers that define them."""
    out = []
    # class counts 50..200 (sorted blocks: the order is irrelevant for counts)
    for counts in (((100, 200, 50), (75, 150, 90)) if tier == "quick" else ((100, 200, 50), (75, 150, 90), (170, 180, 100), (58, 116, 174))):
        out.append(tuple(c for c, k in enumerate(counts) for _ in range(k)))
    for n in ((17, 33, 100) if tier == "quick" else (17, 18, 24, 33, 64, 100, 257, 1000)):
        x, lay = 12345 + n, []
        for _ in range(n):
            x = (1103515245 * x + 12345) % (1 << 31)
            lay.append((x >> 16) % 3)
        out.append(tuple(lay))
    return out


def unlabeled_layouts(maxlen):
    """layouts over {-1 (unlabeled), 0, 1, 2} that contain at least one unlabeled sample"""
    for L in range(1, maxlen + 1):
        for lay in itertools.product((-1, 0, 1, 2), repeat=L):
            if -1 in lay:
                yield lay


def task(args):
    lays, which = args[:2]
    STACKED[0] = len(args) > 2 and args[2] is True
    LABEL_CONTAINER[0] = args[2] if len(args) > 2 and isinstance(args[2], str) else None
    p = Partial()
    for lay in lays:
        c = Checker(p, lay)
        for name in which:
            getattr(c, name)()
    STACKED[0] = False
    LABEL_CONTAINER[0] = None
    p.sample(dict(layout=list(lays[-1]), wrappers=list(which)))
    return p


def run(run):
    maxlen = 5 if run.tier == "quick" else 7
    lays = list(layouts(maxlen))
    lays.sort(key=len)
    chunk = 4 if run.tier == "quick" else 12
    tasks = [(lays[i:i + chunk], Checker.ALL) for i in range(0, len(lays), chunk)]
    ulen = 4 if run.tier == "quick" else 6
    ulays = list(unlabeled_layouts(ulen))
    tasks += [(ulays[i:i + 8 * chunk], Checker.UNLABELED) for i in range(0, len(ulays), 8 * chunk)]
    slen = 4 if run.tier == "quick" else 5
    slays = [l for l in lays if len(l) <= slen]
    stacked_methods = tuple(m for m in Checker.ALL if m != "class_filter_sparse")
    tasks += [(slays[i:i + chunk], stacked_methods, True) for i in range(0, len(slays), chunk)]
    longs = long_layouts(run.tier)
    long_methods = tuple(m for m in Checker.ALL if m not in ("class_filter_sparse", "percent_filter", "subset", "classwise_subset")) \
        + ("subset_long", "classwise_subset_long")
    big_methods = ("classwise_subset_long", "subset_long", "sort_by_class", "oversampling", "fewshot")
    tasks += [([l], long_methods if len(l) <= 150 else big_methods) for l in longs] + \
             [([l], long_methods, True) for l in longs if len(l) <= 40]
    # compact label storage on layouts larger than the label dtype's range (350 / 315 samples)
    cont_methods = ("intra_class_shuffle", "sort_by_class", "fewshot", "oversampling", "classwise_subset_long", "class_filter")
    tasks += [([l], cont_methods, dt) for l in longs if len(l) > 260 for dt in ("uint8", "int8")][:4]
    tasks.reverse()
    run.pmap(task, tasks)
    run.extra.update(long_layout_lengths=[len(l) for l in longs])
    run.extra.update(stacked_layout_len=f"0..{slen}")
    run.extra.update(unlabeled_layouts=len(ulays), unlabeled_layout_len=f"1..{ulen}")
    run.extra.update(bounds=dict(layout_len=f"0..{maxlen}", classes=3, percents=[repr(p) for p in PERCENTS],
                                 seeds=[None, 0, 1, 2], horizon_cpu_seconds=HORIZON_S), layouts=len(lays))
    run.assumptions += [
        "AssertionError / NotImplementedError / ValueError from a constructor count as explicit rejection",
        "stacked: every wrapper is also built on a reversing sub-selection (SubsetWrapper with explicit indices) of a larger root "
        "dataset whose extra samples carry other classes; the specification is then applied to the view, not to the root",
        "percent rounding is undocumented: only contiguity, monotonicity and complementary partition are required",
        "layouts with unlabeled (-1) samples are explored for the two wrappers whose treatment of them is established by the "
        "library (ClasswiseSubsetWrapper: unlabeled samples belong to no class; OversamplingWrapper(multiply): unchanged)",
    ]


def replay(case):
    p = Partial()
    c = Checker(p, tuple(case["layout"]))
    w = case["wrapper"]
    STACKED[0] = bool(case.get("stacked"))
    if case.get("sparse"):
        c = Checker(p, tuple({3: 0, 500: 1, 700: 2}[v] for v in case["layout"]))
        c.class_filter_sparse()
        return None if not p.violations else "; ".join(m for _, m in list(p.violations.values())[:3])
    name = {"ClassFilterWrapper": "class_filter", "PercentFilterWrapper": "percent_filter", "SubsetWrapper": "subset",
            "ShuffleWrapper": "shuffle", "RepeatWrapper": "repeat", "OversamplingWrapper": "oversampling",
            "SortByClassWrapper": "sort_by_class", "IntraClassShuffleWrapper": "intra_class_shuffle",
            "FewshotWrapper": "fewshot", "ClasswiseSubsetWrapper": "classwise_subset"}[w]
    if -1 in case["layout"] and w == "OversamplingWrapper":
        name = "oversampling_unlabeled"
    getattr(c, name)()
    if not p.violations:
        return None
    return "; ".join(m for _, m in list(p.violations.values())[:3])
