"""C14 - geometric transforms stay in bounds and their recorded parameters tell the truth (E1 with ChoiceRng)."""
import itertools

from ..core.choice_rng import ChoiceRng
from ..core.explorer import NOT_REPRODUCIBLE, Chooser, explore
from ..core.runner import Partial

LEVEL = "exploration"
RULE = ("image sizes (h,w) in {1..6}^2 plus extreme aspects, targets 1..6 (also non-square), paddings, pad_if_needed, tensor and "
        "PIL inputs, scale/ratio ranges, erase counts, mask parameters 1..size+1, patch sizes dividing the image; the transforms' "
        "generator is ChoiceRng (integers: full range; uniforms: range ends and middle) - full product where small, otherwise all "
        "executions with <= d non-default answers; inputs are coordinate-coded (pixel value = its own row/column, mask = row*W+col, "
        "nearest interpolation) so geometry is decoded exactly; oracles: requested output size, box inside the (padded) input, "
        "output == torchvision functional op applied by hand with the recorded parameters, erased/masked region one admissible "
        "rectangle/band, identical geometry for image and segmentation mask, patchify/unpatchify and norm/denorm inverses; "
        "distinct = distinct (transform, configuration, recorded parameters) observations")

FRAC = (0.0, 0.5, 1 - 1e-9)


def coded(h, w, pil=False):
    """Coordinate-coded image: channel 0 = row, channel 1 = column (+1 so that 0 means 'erased/padded')."""
    import torch
    rows = torch.arange(h).view(h, 1).expand(h, w) + 1
    cols = torch.arange(w).view(1, w).expand(h, w) + 1
    x = torch.stack([rows, cols, rows * 0 + 7]).float()
    if pil:
        from torchvision.transforms.functional import to_pil_image
        return to_pil_image(x.to(torch.uint8))
    return x


def as_tensor(x):
    import torch
    if torch.is_tensor(x):
        return x.float()
    import numpy as np
    return torch.from_numpy(np.array(x)).permute(2, 0, 1).float()


def size_of(x):
    import torch
    if torch.is_tensor(x):
        return int(x.shape[-2]), int(x.shape[-1])
    return x.height, x.width


def rng_for(ch, int_full=8):
    return ChoiceRng(ch, frac=FRAC, unit=(0.0, 0.49, 0.51, 1 - 1e-9), int_full=int_full)


REJECT = (ValueError, AssertionError, NotImplementedError)


# ------------------------------------------------------------------------------- crops

def run_random_crop(cfg, ch):
    import torchvision.transforms.functional as F
    from kappadata.transforms.kd_random_crop import KDRandomCrop
    h, w, size, padding, pin, pil = cfg
    t = KDRandomCrop(size=size, padding=padding, pad_if_needed=pin)
    t.set_rng(rng_for(ch))
    x = coded(h, w, pil)
    ctx = {}
    try:
        y = t(x, ctx=ctx)
    except REJECT:
        return "rejected", None
    th, tw = (size, size) if isinstance(size, int) else size
    if size_of(y) != (th, tw):
        return "output_size_wrong", f"output {size_of(y)}, requested {(th, tw)}"
    c = ctx.get("random_crop")
    if not c:
        return "no_recorded_parameters", ""
    xp = x
    if padding is not None:
        xp = F.pad(xp, padding, 0, "constant")
    ph, pw = size_of(xp)
    if pin and pw < tw:
        xp = F.pad(xp, [tw - pw, 0], 0, "constant")
    if pin and ph < th:
        xp = F.pad(xp, [0, th - ph], 0, "constant")
    ph, pw = size_of(xp)
    if not (0 <= c["i"] and c["i"] + c["h"] <= ph and 0 <= c["j"] and c["j"] + c["w"] <= pw and c["h"] == th and c["w"] == tw):
        return "crop_box_outside_input", f"box {c} on padded input {ph}x{pw}"
    import torch
    if not torch.equal(as_tensor(y), as_tensor(F.crop(xp, c["i"], c["j"], c["h"], c["w"]))):
        return "recorded_parameters_do_not_reproduce_output", f"{c}"
    return None, (c["i"], c["j"], c["h"], c["w"])


def run_two_random_crop(cfg, ch):
    import torch
    import torchvision.transforms.functional as F
    from kappadata.transforms.kd_two_random_crop import KDTwoRandomCrop
    h, w, size, omin, omax, pil = cfg[:6]
    padding = cfg[6] if len(cfg) > 6 else None
    t = KDTwoRandomCrop(size=size, overlap_min=omin, overlap_max=omax, tries=2, **({} if padding is None else dict(padding=padding)))
    t.set_rng(rng_for(ch))
    x = coded(h, w, pil)
    ctx = {}
    try:
        y = t(x, ctx=ctx)
    except REJECT:
        return "rejected", None
    if padding is not None:
        # the recorded boxes refer to the padded image (zero fill)
        x = F.pad(x, [padding, padding] if isinstance(padding, int) else list(padding))
        h, w = h + 2 * (padding if isinstance(padding, int) else padding[1]), w + 2 * (padding if isinstance(padding, int) else padding[0])
    c = ctx.get("two_random_crop")
    if not isinstance(y, list) or len(y) != 2 or not c:
        return "output_or_ctx_malformed", repr(type(y))
    for k in (0, 1):
        i, j, hh, ww = c[f"i{k}"], c[f"j{k}"], c[f"h{k}"], c[f"w{k}"]
        if size_of(y[k]) != (size, size):
            return "output_size_wrong", f"crop {k}: {size_of(y[k])}"
        if not (0 <= i and i + hh <= h and 0 <= j and j + ww <= w):
            return "crop_box_outside_input", f"crop {k}: {(i, j, hh, ww)} on {h}x{w}"
        if not torch.equal(as_tensor(y[k]), as_tensor(F.crop(x, i, j, hh, ww))):
            return "recorded_parameters_do_not_reproduce_output", f"crop {k}: {(i, j, hh, ww)}"
    # the recorded overlap must be the IoU of the two recorded boxes
    ih = max(0, min(c["i0"] + c["h0"], c["i1"] + c["h1"]) - max(c["i0"], c["i1"]))
    iw = max(0, min(c["j0"] + c["w0"], c["j1"] + c["w1"]) - max(c["j0"], c["j1"]))
    inter = ih * iw
    iou = inter / (c["h0"] * c["w0"] + c["h1"] * c["w1"] - inter)
    if abs(c["overlap"] - iou) > 1e-9:
        return "recorded_overlap_is_not_the_overlap_of_the_recorded_boxes", f"recorded {c['overlap']}, boxes give {iou}: {c}"
    lo, hi = (omin or 0.0), (omax or 1.0)
    if not c["out_of_tries"] and not (lo - 1e-9 <= iou <= hi + 1e-9):
        return "overlap_outside_configured_range_without_out_of_tries", f"{iou} not in [{lo}, {hi}]: {c}"
    return None, tuple(c[k] for k in ("i0", "j0", "i1", "j1"))


def run_rrc(cfg, ch):
    import torch
    import torchvision.transforms.functional as F
    from torchvision.transforms import InterpolationMode
    from kappadata.transforms.kd_random_resized_crop import KDRandomResizedCrop
    h, w, size, scale, ratio, pil = cfg
    t = KDRandomResizedCrop(size=size, scale=scale, ratio=ratio, interpolation="nearest")
    t.set_rng(rng_for(ch))
    x = coded(h, w, pil)
    ctx = {}
    try:
        y = t(x, ctx=ctx)
    except REJECT:
        return "rejected", None
    ts = (size, size) if isinstance(size, int) else tuple(size)
    if size_of(y) != ts:
        return "output_size_wrong", f"output {size_of(y)}, requested {ts}"
    c = ctx.get("random_resized_crop")
    if not c:
        return "no_recorded_parameters", ""
    if (c["og_h"], c["og_w"]) != (h, w):
        return "recorded_input_size_wrong", f"{c}"
    if not (0 <= c["i"] and 0 < c["h"] and c["i"] + c["h"] <= h and 0 <= c["j"] and 0 < c["w"] and c["j"] + c["w"] <= w):
        return "crop_box_outside_input", f"box {c} on input {h}x{w}"
    ref = F.resized_crop(x, c["i"], c["j"], c["h"], c["w"], list(ts), InterpolationMode.NEAREST)
    if not torch.equal(as_tensor(y), as_tensor(ref)):
        return "recorded_parameters_do_not_reproduce_output", f"{c}"
    return None, (c["i"], c["j"], c["h"], c["w"])


def run_simple_crop(cfg, ch):
    import torch
    from kappadata.transforms.kd_simple_random_crop import KDSimpleRandomCrop
    h, w, size, padding = cfg
    t = KDSimpleRandomCrop(size=size, padding=padding, interpolation="nearest", padding_mode="constant")
    t.set_rng(rng_for(ch))
    x = coded(h, w)
    ctx = {}
    try:
        y = t(x, ctx=ctx)
    except REJECT:
        return "rejected", None
    c = ctx.get("random_crop")
    if size_of(y) != (size, size):
        # a non-square input is resized by its smaller edge only; the crop must still deliver the requested size
        return "output_size_wrong", f"output {size_of(y)}, requested {(size, size)} for input {h}x{w}"
    if not c or not (0 <= c["i"] and 0 <= c["j"] and c["h"] == size and c["w"] == size):
        return "crop_box_outside_input", f"{c}"
    return None, (c["i"], c["j"])


# ------------------------------------------------------------------------------- erasing / spec augment

def run_erasing(cfg, ch):
    import torch
    from kappadata.transforms.kd_random_erasing import KDRandomErasing
    h, w, count, mode = cfg
    t = KDRandomErasing(p=1.0, mode=mode, min_count=count, max_count=count, min_area=0.1, max_area=0.6)
    t.set_rng(ChoiceRng(ch, frac=FRAC, unit=(0.0,), z=(50.0,), int_full=8))
    x = coded(h, w)
    x0 = x.clone()
    try:
        y = t(x, ctx={})
    except REJECT:
        return "rejected", None
    if tuple(y.shape) != tuple(x0.shape):
        return "output_size_wrong", f"{tuple(y.shape)}"
    changed = (y != x0).any(dim=0)
    if mode == "zeros" and not torch.equal(y[:, changed], torch.zeros_like(y[:, changed])):
        return "erased_region_not_filled_as_configured", ""
    if changed.any():
        rows = changed.any(dim=1).nonzero().flatten().tolist()
        cols = changed.any(dim=0).nonzero().flatten().tolist()
        if count == 1:
            rect = torch.zeros_like(changed)
            rect[rows[0]:rows[-1] + 1, cols[0]:cols[-1] + 1] = True
            if not torch.equal(rect, changed):
                return "erased_region_not_one_rectangle", f"{changed.int().tolist()}"
            eh, ew = rows[-1] - rows[0] + 1, cols[-1] - cols[0] + 1
            if not (eh < h and ew < w):
                return "erased_rectangle_not_of_admissible_size", f"{eh}x{ew} in {h}x{w}"
            return None, (rows[0], cols[0], eh, ew)
        return None, (int(changed.sum()),)
    return None, ("nothing",)


def run_spec_augment(cfg, ch):
    import torch
    from kappadata.transforms.audio.kd_spec_augment import KDSpecAugment
    h, w, tm, fm = cfg
    t = KDSpecAugment(time_masking=tm, frequency_masking=fm)
    t.set_rng(ChoiceRng(ch, unit=(0.0, 0.3, 0.6, 1 - 1e-9)))
    x = torch.ones(1, h, w)
    try:
        y = t(x.clone(), ctx={})
    except (ValueError, NotImplementedError):
        return "rejected", None
    except AssertionError as e:
        return "internal_assertion_failed", repr(e)
    if tuple(y.shape) != (1, h, w):
        return "output_size_wrong", f"{tuple(y.shape)}"
    z = (y[0] == 0)
    if not torch.equal(y[0][~z], torch.ones_like(y[0][~z])):
        return "unmasked_values_changed", ""
    full_rows = [r for r in range(h) if bool(z[r].all())]
    full_cols = [c for c in range(w) if bool(z[:, c].all())]
    band = torch.zeros_like(z)
    for r in full_rows:
        band[r, :] = True
    for c in full_cols:
        band[:, c] = True
    if not torch.equal(band, z):
        return "masked_region_not_bands", f"{z.int().tolist()}"
    whole = len(full_rows) == h or len(full_cols) == w
    for name, idx, param in (("time", full_rows, tm), ("frequency", full_cols, fm)):
        if idx and not whole:
            if idx != list(range(idx[0], idx[-1] + 1)):
                return "masked_band_not_contiguous", f"{name} {idx}"
            if param is None or len(idx) >= param:
                return "masked_band_wider_than_parameter", f"{name} band of {len(idx)} with parameter {param}"
    return None, (tuple(full_rows), tuple(full_cols))


# ------------------------------------------------------------------------------- semseg pairs

def coded_pair(h, w):
    import torch
    x = coded(h, w)[:2]
    seg = (torch.arange(h).view(h, 1) * w + torch.arange(w).view(1, w)).long()
    return x, seg


def check_pair(x, seg, W0, allow_padding=True):
    """Every non-padding mask pixel must decode to the source pixel that the image shows at the same place."""
    import torch
    if not allow_padding and bool((x[0] == 0).any()):
        return "the output contains pixels from outside the input (zero fill) although the pipeline does not pad"
    if tuple(x.shape[-2:]) != tuple(seg.shape[-2:]):
        return f"image {tuple(x.shape)} and mask {tuple(seg.shape)} differ in size"
    valid = seg >= 0
    rows = torch.div(seg, W0, rounding_mode="floor") + 1
    cols = seg % W0 + 1
    if not torch.equal(x[0][valid], rows[valid].float()) or not torch.equal(x[1][valid], cols[valid].float()):
        bad = ((x[0] != rows.float()) | (x[1] != cols.float())) & valid
        r, c = [int(v) for v in bad.nonzero()[0]]
        return f"at ({r},{c}) the image shows source pixel ({int(x[0, r, c]) - 1},{int(x[1, r, c]) - 1}) but the mask says " \
               f"({int(rows[r, c]) - 1},{int(cols[r, c]) - 1})"
    if not torch.equal(x[:, ~valid], torch.zeros_like(x[:, ~valid])):
        return "padded mask pixels (-1) over non-padded image pixels"
    return None


SEMSEG_PIPES = {
    "crop": lambda s: [("KDSemsegRandomCrop", dict(size=s))],
    "crop_wide": lambda s: [("KDSemsegRandomCrop", dict(size=(s, s + 2)))],
    "crop_tall": lambda s: [("KDSemsegRandomCrop", dict(size=(s + 2, s)))],
    "crop_ratio": lambda s: [("KDSemsegRandomCrop", dict(size=s, max_category_ratio=0.75))],
    # the same on a label map with one dominant category: every window is rejected, the retries run out
    "crop_ratio_dominant": lambda s: [("KDSemsegRandomCrop", dict(size=s, max_category_ratio=0.75))],
    "crop_ratio_single": lambda s: [("KDSemsegRandomCrop", dict(size=s, max_category_ratio=0.5))],
    "flip": lambda s: [("KDSemsegRandomHorizontalFlip", dict())],
    "resize": lambda s: [("KDSemsegRandomResize", dict(base_size=(s, s + 1), ratio=(0.5, 2.0), interpolation="nearest"))],
    "pad": lambda s: [("KDSemsegPad", dict(size=s))],
    "fixed_resize": lambda s: [("KDSemsegResize", dict(size=(s, s + 1), interpolation="nearest"))],
    "full": lambda s: [("KDSemsegRandomResize", dict(base_size=(s + 1, s + 2), ratio=(0.5, 2.0), interpolation="nearest")),
                       ("KDSemsegRandomCrop", dict(size=s)), ("KDSemsegRandomHorizontalFlip", dict()), ("KDSemsegPad", dict(size=s))],
    "full_old": lambda s: [("KDSemsegRandomResizeOld", dict(base_size=(s + 1, s + 2), ratio=(0.5, 2.0), interpolation="nearest")),
                           ("KDSemsegRandomCrop", dict(size=(s, s + 1))), ("KDSemsegRandomHorizontalFlip", dict()),
                           ("KDSemsegPad", dict(size=(s, s + 1)))],
}


def build_semseg(pipe, s):
    import importlib
    out = []
    for name, kw in SEMSEG_PIPES[pipe](s):
        mod = {"KDSemsegRandomCrop": "kd_semseg_random_crop", "KDSemsegRandomHorizontalFlip": "kd_semseg_random_horizontal_flip",
               "KDSemsegRandomResize": "kd_semseg_random_resize", "KDSemsegRandomResizeOld": "kd_semseg_random_resize_old",
               "KDSemsegPad": "kd_semseg_pad", "KDSemsegResize": "kd_semseg_resize"}[name]
        out.append(getattr(importlib.import_module(f"kappadata.transforms.semseg.{mod}"), name)(**kw))
    return out


def dominant_label(pipe, r, c, w):
    """label map of the *_dominant / *_single pipes as a function of the source pixel: category 0 everywhere except (for
    'dominant') sparse marker pixels carrying their own id"""
    if pipe.endswith("_single"):
        return 0
    return r * w + c + 1 if (r + 2 * c) % 7 == 0 else 0


def run_semseg(cfg, ch):
    h, w, pipe, s, via = cfg
    x, seg = coded_pair(h, w)
    if pipe.endswith(("_dominant", "_single")):
        import torch
        seg = torch.tensor([[dominant_label(pipe, r, c, w) for c in range(w)] for r in range(h)]).long()
    src_x, src_seg = x.clone(), seg.clone()
    ts = build_semseg(pipe, s)
    rng = rng_for(ch)
    try:
        if via == "direct":
            for t in ts:
                t.set_rng(rng)
                x, seg = t((x, seg), ctx={})
        else:
            from kappadata.datasets.kd_dataset import KDDataset
            from kappadata.wrappers.sample_wrappers.semseg_transform_wrapper import SemsegTransformWrapper
            from kappadata.wrappers.mode_wrapper import ModeWrapper

            class DS(KDDataset):
                def __len__(self):
                    return 2

                def getitem_x(self, idx, ctx=None):
                    return src_x.clone()

                def getitem_semseg(self, idx, ctx=None):
                    return src_seg.clone()

            for t in ts:
                t.set_rng(rng)
            wrap = SemsegTransformWrapper(DS(), ts, seed=None)
            x, seg = ModeWrapper(wrap, "x semseg")[1] if via == "wrapper" else ModeWrapper(wrap, "semseg x")[0][::-1]
    except REJECT:
        return "rejected", None
    except RuntimeError as e:
        if "should be greater than 0" in str(e):
            return "rejected", None  # a resize ratio that leaves no pixel: torch's own explicit rejection
        return "exception:RuntimeError", repr(e)
    except Exception as e:
        return f"exception:{type(e).__name__}", repr(e)
    if pipe.endswith(("_dominant", "_single")):
        # the image is position coded: every output pixel names its source pixel; the mask must show that pixel's label
        if tuple(x.shape[-2:]) != tuple(seg.shape[-2:]) or tuple(seg.shape) != (min(h, s), min(w, s)):
            return "output_size_wrong", f"{pipe}: image {tuple(x.shape)} mask {tuple(seg.shape)} for input {h}x{w}, size {s}"
        for r in range(seg.shape[0]):
            for c in range(seg.shape[1]):
                r0, c0 = int(x[0, r, c]) - 1, int(x[1, r, c]) - 1
                if int(seg[r, c]) != dominant_label(pipe, r0, c0, w):
                    return "image_and_mask_geometry_differ", (f"at ({r},{c}) the image shows source pixel ({r0},{c0}) whose label is "
                                                               f"{dominant_label(pipe, r0, c0, w)} but the mask says {int(seg[r, c])}")
        return None, tuple(seg.shape) + (int(x[0, 0, 0]), int(x[1, 0, 0]))
    err = check_pair(x, seg, w, allow_padding=pipe in ("pad", "full", "full_old"))
    if err:
        return ("window_leaves_the_input" if "outside the input" in err else "image_and_mask_geometry_differ"), err
    want = {"crop": (min(h, s), min(w, s)), "crop_wide": (min(h, s), min(w, s + 2)), "crop_tall": (min(h, s + 2), min(w, s)), "pad": (max(h, s), max(w, s)), "full": (s, s), "full_old": (s, s + 1),
            "fixed_resize": (s, s + 1)}.get(pipe)
    if want is not None and tuple(seg.shape) != want:
        return "output_size_wrong", f"{pipe} output {tuple(seg.shape)} for input {h}x{w}, size {s}, expected {want}"
    return None, tuple(seg.shape) + (int(seg[0, 0]),)


def semseg_seeded(p):
    """SemsegTransformWrapper with a seed: same geometry for both members, for real generators."""
    from kappadata.datasets.kd_dataset import KDDataset
    from kappadata.wrappers.sample_wrappers.semseg_transform_wrapper import SemsegTransformWrapper
    from kappadata.wrappers.mode_wrapper import ModeWrapper
    for h, w in ((5, 6), (3, 8), (6, 4)):
        class DS(KDDataset):
            def __len__(self):
                return 6

            def getitem_x(self, idx, ctx=None):
                return coded_pair(h, w)[0]

            def getitem_semseg(self, idx, ctx=None):
                return coded_pair(h, w)[1]

        from kappadata.transforms.base.kd_stochastic_transform import KDStochasticTransform

        class Draw(KDStochasticTransform):
            """an image-only stochastic transform that consumes random numbers but leaves the (position-coded) pixels alone"""

            def __call__(self, x, ctx=None):
                self.rng.random()
                self.rng.integers(5)
                return x

        def with_image_only(ts, where):
            if where == "first":
                return [Draw()] + ts
            if where == "between":
                out = []
                for t in ts:
                    out += [t, Draw()]
                return out[:-1] if len(out) > 1 else [Draw()] + out
            return ts

        # KDSemsegRandomResizeOld is not a registered pair transform of the wrapper
        for pipe, where in [(pp, None) for pp in ("full", "crop_ratio", "resize")] + [("full", "first"), ("full", "between"), ("crop", "first")]:
            for seed in range(6):
                wrap = SemsegTransformWrapper(DS(), with_image_only(build_semseg(pipe, 4), where), seed=seed)
                for i in range(6):
                    p.evaluations += 1
                    try:
                        x, seg = ModeWrapper(wrap, "x semseg")[i]
                        x2 = ModeWrapper(wrap, "x")[i]
                        seg2 = ModeWrapper(wrap, "semseg")[i]
                    except Exception as e:
                        p.violation(f"C14:semseg_wrapper:exception:{type(e).__name__}", dict(kind="semseg_seeded"), repr(e))
                        continue
                    err = check_pair(x, seg, w) or check_pair(x2, seg2, w)
                    if err:
                        p.violation("C14:semseg_wrapper:image_and_mask_geometry_differ|seeded" + ("|image_only_transform_" + where if where else ""),
                                    dict(kind="semseg_seeded", h=h, w=w, pipe=pipe, seed=seed, i=i),
                                    f"seeded wrapper {pipe} (image-only stochastic transform: {where}) {h}x{w} seed {seed} sample {i}: {err}")
                    else:
                        p.observe(("semseg_seeded", h, w, pipe, seed, i, tuple(seg.shape)))


# ------------------------------------------------------------------------------- inverses

def bbox_utils(p):
    """kappadata/utils/bounding_box_utils.py: intersection areas against brute-force pixel counting, all boxes in a 4x4 grid."""
    from kappadata.utils.bounding_box_utils import intersection_area_ijkl, intersection_area_ijhw
    G = 4
    boxes = [(i, j, k, l) for i in range(G) for j in range(G) for k in range(i + 1, G + 1) for l in range(j + 1, G + 1)]
    for a in boxes:
        pa = {(r, c) for r in range(a[0], a[2]) for c in range(a[1], a[3])}
        for b in boxes:
            pb = {(r, c) for r in range(b[0], b[2]) for c in range(b[1], b[3])}
            exp = len(pa & pb)
            p.evaluations += 1
            try:
                g1 = intersection_area_ijkl(*a, *b)
                g2 = intersection_area_ijhw(a[0], a[1], a[2] - a[0], a[3] - a[1], b[0], b[1], b[2] - b[0], b[3] - b[1])
            except Exception as e:
                p.violation(f"C14:bounding_box_utils:exception:{type(e).__name__}", dict(kind="bbox", a=a, b=b), repr(e))
                continue
            if g1 != exp or g2 != exp:
                p.violation("C14:bounding_box_utils:intersection_area_wrong", dict(kind="bbox", a=a, b=b),
                            f"boxes {a} and {b}: intersection {exp}, ijkl says {g1}, ijhw says {g2}")
    p.observe(("bbox", len(boxes)))


def inverses(p):
    import torch
    from kappadata.transforms.patchify import Patchify
    from kappadata.transforms.unpatchify import Unpatchify
    from kappadata.transforms.patchify_image import PatchifyImage
    from kappadata.transforms.unpatchify_image import UnpatchifyImage
    from kappadata.transforms.patchwise_shuffle import PatchwiseShuffle
    from kappadata.transforms.norm.kd_image_norm import KDImageNorm
    from kappadata.transforms.norm.kd_image_range_norm import KDImageRangeNorm
    import kappadata.common.transforms.norm as cn
    for h, w in itertools.product(range(1, 7), repeat=2):
        x = coded(h, w)
        for ph, pw in itertools.product([d for d in range(1, h + 1) if h % d == 0], [d for d in range(1, w + 1) if w % d == 0]):
            p.evaluations += 1
            case = dict(kind="inverse", h=h, w=w, patch=(ph, pw))
            try:
                y = Unpatchify()(Patchify((ph, pw))(x.clone()))
                if not torch.equal(y, x):
                    p.violation("C14:unpatchify_not_inverse_of_patchify", case, f"{h}x{w} patches {ph}x{pw}")
                ctx = {}
                pt = PatchifyImage((ph, pw))(x.clone(), ctx=ctx)
                if not torch.equal(UnpatchifyImage()(pt, ctx=ctx), x):
                    p.violation("C14:unpatchify_image_not_inverse_of_patchify_image", case, f"{h}x{w} patches {ph}x{pw}")
                n = pt.shape[1]
                def body(c):
                    sh = PatchwiseShuffle()
                    sh.set_rng(ChoiceRng(c))
                    cx = dict(ctx)
                    out = sh(pt.clone(), ctx=cx)
                    # the same object serves a second sample before the first record is read (a batch of contexts is collated
                    # after all its samples were produced): the first record must still undo the first output
                    sh(pt.clone(), ctx=dict(ctx))
                    perm = torch.as_tensor(cx["permutation"])
                    back = torch.empty_like(out)
                    back[:, perm] = out
                    return bool(torch.equal(UnpatchifyImage()(back, ctx=cx), x)), tuple(perm.tolist())
                for chs, res in explore(body, cap=30):
                    if chs is None:
                        break
                    ok, perm = res
                    p.evaluations += 1
                    if not ok:
                        p.violation("C14:recorded_permutation_does_not_undo_patch_shuffle", dict(case, perm=list(perm)),
                                    f"{h}x{w} patches {ph}x{pw} permutation {perm}")
                    else:
                        p.observe(("shuffle", h, w, ph, pw, perm))
            except Exception as e:
                p.violation(f"C14:patchify:exception:{type(e).__name__}", case, repr(e))
    g = torch.Generator().manual_seed(0)
    norms = [("KDImageNorm", lambda inv: KDImageNorm(mean=(0.5, 0.4, 0.3), std=(0.2, 0.3, 0.25), inverse=inv), 3),
             ("KDImageRangeNorm", lambda inv: KDImageRangeNorm(inverse=inv), 3)]
    for nm in ("KDImageNetNorm", "KDCifar10Norm", "KDCifar100Norm"):
        norms.append((nm, (lambda inv, nm=nm: getattr(cn, nm)(inverse=inv)), 3))
    for nm in ("KDAudioSetNorm", "KDEsc50Norm", "KDSidNorm", "KDSpeechCommandsV1Norm", "KDSpeechCommandsV2Norm"):
        norms.append((nm, (lambda inv, nm=nm: getattr(cn, nm)(inverse=inv)), 1))
    for name, mk, C in norms:
        for h, w in ((1, 1), (2, 3), (5, 4)):
            x = torch.rand(C, h, w, generator=g)
            p.evaluations += 1
            try:
                y = mk(True)(mk(False)(x.clone()))
                y2 = mk(False).denormalize(mk(False).normalize(x.clone(), inplace=False), inplace=False)
                if not (torch.allclose(y, x, atol=1e-5) and torch.allclose(y2, x, atol=1e-5)):
                    p.violation(f"C14:denormalize_not_inverse_of_normalize|{name}", dict(kind="inverse", norm=name), f"{name}: max err {(y - x).abs().max()}")
                else:
                    p.observe(("norm", name, h, w))
            except Exception as e:
                p.violation(f"C14:norm:exception:{type(e).__name__}|{name}", dict(kind="inverse", norm=name), repr(e))


# ------------------------------------------------------------------------------- driver

RUNNERS = {"random_crop": run_random_crop, "two_random_crop": run_two_random_crop, "rrc": run_rrc, "simple_crop": run_simple_crop,
           "erasing": run_erasing, "spec_augment": run_spec_augment, "semseg": run_semseg}


def configs(tier):
    sizes = [(h, w) for h in range(1, 7) for w in range(1, 7)] + [(1, 20), (20, 1), (3, 17)]
    small = [(h, w) for h in (1, 2, 3, 5, 6) for w in (1, 2, 4, 6)] + [(1, 20), (20, 1), (3, 17)]
    use = sizes if tier == "thorough" else small
    out = []
    for (h, w) in use:
        for size in (1, 2, 3, 4, 6, (2, 3), (4, 2)):
            for padding in (None, 1, (1, 2)):
                for pin in (False, True):
                    for pil in (False, True):
                        if pil and (padding is not None or pin) and tier == "quick":
                            continue
                        out.append(("random_crop", (h, w, size, padding, pin, pil), None))
        for size in (1, 2, 4):
            for om, ox in ((None, None), (0.2, 0.6), (0.05, 1.0)):
                out.append(("two_random_crop", (h, w, size, om, ox, False), None))
                if om is None and size <= 2:
                    out.append(("two_random_crop", (h, w, size, om, ox, False, 1), None))
                    out.append(("two_random_crop", (h, w, size, om, ox, False, (1, 2)), None))
        for size in (1, 3, (2, 4)):
            for scale in ((0.08, 1.0), (0.5, 1.0), (0.9, 1.0)):
                for ratio in ((3 / 4, 4 / 3), (0.5, 2.0)):
                    for pil in ((False, True) if tier == "thorough" else (False,)):
                        out.append(("rrc", (h, w, size, scale, ratio, pil), 2))
        for size in (2, 4):
            for padding in (1, 2):
                out.append(("simple_crop", (h, w, size, padding), None))
        for count in (1, 2):
            out.append(("erasing", (h, w, count, "zeros"), 2))
        out.append(("erasing", (h, w, 1, "pixelwise"), 1))
        for tm in (None, 1, 2, h, h + 1):
            for fm in (None, 1, 2, w, w + 1):
                if tm is None and fm is None:
                    continue
                out.append(("spec_augment", (h, w, tm, fm), None))
        if h >= 2 and w >= 2 and h <= 8 and w <= 8:
            for pipe in SEMSEG_PIPES:
                for s in (2, 4):
                    vias = ("direct", "wrapper", "wrapper_rev") if tier == "thorough" or pipe in ("full", "crop") else ("direct",)
                    if pipe == "full_old":
                        vias = ("direct",)  # KDSemsegRandomResizeOld is not a registered pair transform of the wrapper
                    for via in vias:
                        if pipe == "crop_ratio_single":
                            continue  # a constant label map cannot show a geometry difference; kept for larger inputs below
                        out.append(("semseg", (h, w, pipe, s, via), 2 if pipe.startswith("full") or pipe.startswith("crop_ratio") else None))
    for (h, w) in ((9, 8), (7, 12)):
        for s in (2, 4):
            for via in ("direct", "wrapper"):
                out.append(("semseg", (h, w, "crop_ratio_dominant", s, via), 2))
    return out


def task(args):
    items, cap = args
    p = Partial()
    for kind, cfg, max_dev in items:
        raw = RUNNERS[kind]

        def fn(cfg, c, raw=raw):
            # anything the library raises beyond an explicit rejection, and any output the oracle cannot even interpret,
            # is a failure to deliver the promised value - never a harness crash
            try:
                return raw(cfg, c)
            except Exception as e:
                return f"exception:{type(e).__name__}", repr(e)
        n = 0
        for ch, res in explore(lambda c: fn(cfg, c), max_dev=max_dev, cap=cap, diverged=lambda msg: (NOT_REPRODUCIBLE, msg)):
            if ch is None:
                p.count("configs_capped")
                break
            n += 1
            p.evaluations += 1
            k, info = res
            if k == "rejected":
                p.count("rejected")
                continue
            if k:
                extra = ""
                if kind in ("random_crop", "rrc", "two_random_crop"):
                    extra = f"|pil={cfg[-1]}"
                if kind == "semseg":
                    extra = f"|pipe={cfg[2]}|via={cfg[4]}"
                p.violation(f"C14:{kind}:{k}{extra}", dict(kind=kind, cfg=cfg, choices=ch.choices), f"{kind} {cfg}: {info}")
            else:
                p.observe((kind, repr(cfg), info))
    p.sample(dict(kind=items[0][0], cfg=[str(c) for c in items[0][1]]))
    return p


def extra_task(which):
    p = Partial()
    if which == "inverses":
        inverses(p)
    elif which == "bbox":
        bbox_utils(p)
    else:
        semseg_seeded(p)
    return p


def run(run):
    cfgs = configs(run.tier)
    cap = 600 if run.tier == "quick" else 20000
    k = run.seed % 7
    cfgs = cfgs[k:] + cfgs[:k]
    chunk = 40
    run.pmap(task, [(cfgs[i:i + chunk], cap) for i in range(0, len(cfgs), chunk)])
    run.pmap(extra_task, ["inverses", "semseg_seeded", "bbox"])
    run.exhaustive = run.counters.get("configs_capped", 0) == 0
    run.extra.update(bounds=dict(configs=len(cfgs), execution_cap_per_config=cap, uniform_alphabet=FRAC, integers="full range (<=8), else 5 points"))
    run.assumptions += [
        "ValueError / AssertionError / NotImplementedError raised for inputs smaller than the target are explicit rejections",
        "interpolation is forced to 'nearest' in the harness configuration so that geometry can be decoded exactly",
        "recorded parameters are compared through torchvision.transforms.functional crop / resized_crop / pad applied by hand",
    ]


def _t(x):
    return tuple(_t(i) for i in x) if isinstance(x, list) else x


def replay(case):
    if case.get("kind") in ("inverse", "semseg_seeded", "bbox"):
        p = Partial()
        {"inverse": inverses, "semseg_seeded": semseg_seeded, "bbox": bbox_utils}[case["kind"]](p)
        return None if not p.violations else "; ".join(m for _, m in list(p.violations.values())[:3])
    k, info = RUNNERS[case["kind"]](_t(case["cfg"]), Chooser(tuple(case["choices"])))
    return None if k in (None, "rejected") else f"{k}: {info}"
