"""Catalogue of shipped transforms: constructor arguments + input kinds, used by C07/C08/C09/C15.

A *spec* is a nested tuple that can be pickled / written to JSON and rebuilt with build():
    ("leaf", name, variant_index)
    ("compose", spec, spec, ...)
    ("random_apply", p, spec)
    ("patchwise", patch_size, spec)
    ("scheduled", spec)
"""
import importlib
import pkgutil


def inputs(kind, j=0):
    """Fresh input object number j of a kind (never shared between calls: several transforms work in place)."""
    import torch
    from PIL import Image
    import numpy as np
    g = torch.Generator().manual_seed(1000 + j)
    if kind == "T3":
        return torch.rand(3, 8, 8, generator=g)
    if kind == "T3b":
        return torch.rand(3, 9, 6, generator=g)
    if kind == "PIL":
        arr = (torch.rand(8, 8, 3, generator=g) * 255).to(torch.uint8).numpy()
        return Image.fromarray(arr, mode="RGB")
    if kind == "PILb":
        arr = (torch.rand(9, 6, 3, generator=g) * 255).to(torch.uint8).numpy()
        return Image.fromarray(arr, mode="RGB")
    # extreme aspect ratios: routines that retry a random draw take their fallback path here (always at 32:1, often at 6:1)
    if kind == "T3x":
        return torch.rand(3, 4, 24, generator=g)
    if kind == "T3xx":
        return torch.rand(3, 2, 64, generator=g)
    if kind in ("PILx", "PILxx"):
        h, w = (4, 24) if kind == "PILx" else (2, 64)
        arr = (torch.rand(h, w, 3, generator=g) * 255).to(torch.uint8).numpy()
        return Image.fromarray(arr, mode="RGB")
    if kind == "SPEC":
        return torch.rand(1, 6, 5, generator=g)
    if kind == "PATCH":
        return torch.rand(3, 4, 2, 2, generator=g)
    if kind == "PAIR":
        return (torch.rand(3, 8, 8, generator=g), torch.randint(0, 4, (8, 8), generator=g))
    if kind == "PAIRb":
        return (torch.rand(3, 9, 6, generator=g), torch.randint(0, 4, (9, 6), generator=g))
    raise ValueError(kind)


CJ = dict(brightness=0.4, contrast=0.4, saturation=0.2, hue=0.1)
RA = dict(num_ops=2, magnitude=9, magnitude_std=0.5, interpolation="random", fill_color=(124, 116, 104))

# class name -> list of (kwargs, input kinds)
LEAVES = {
    "KDAdditiveGaussianNoise": [(dict(std=0.1), ["T3"]), (dict(std=0.1, magnitude=0.5, magnitude_std=0.2), ["T3b"])],
    "KDAdditiveUniformNoise": [(dict(), ["T3"]), (dict(magnitude=0.5, magnitude_std=0.1, clip_max=1.0), ["T3"])],
    "KDColorJitter": [(CJ, ["T3", "PIL"])],
    # the last entries: a degenerate range (one value): nothing to sample, still no other random source may be touched
    "KDGaussianBlurPIL": [(dict(sigma=(0.1, 2.0)), ["PIL", "T3"]), (dict(sigma=1.5), ["PIL"])],
    "KDGaussianBlurTV": [(dict(kernel_size=3, sigma=(0.1, 2.0)), ["T3"]), (dict(kernel_size=3, sigma=1.5), ["T3", "PIL"]),
                         (dict(kernel_size=3, sigma=(2.0, 2.0)), ["T3"])],
    "KDRandAugment": [(RA, ["PIL", "PILb"])],
    "KDRandAugmentCustom": [(RA, ["PIL"])],
    "KDRandomAdditiveGaussianNoise": [(dict(p=0.5, std=0.1), ["T3"])],
    "KDRandomColorJitter": [(dict(p=0.8, **CJ), ["T3", "PIL"])],
    "KDRandomCrop": [(dict(size=4), ["T3", "PIL", "T3x"]), (dict(size=8, padding=1), ["T3"]),
                     (dict(size=10, pad_if_needed=True), ["T3", "T3b", "T3x"]), (dict(size=(5, 30), pad_if_needed=True, padding=1), ["T3x", "T3b"])],
    "KDTwoRandomCrop": [(dict(size=4), ["T3"]), (dict(size=4, overlap_min=0.2, overlap_max=0.6, tries=3), ["PIL"]),
                        (dict(size=10, pad_if_needed=True), ["T3", "T3b"])],
    "KDRandomErasing": [(dict(p=0.5, mode="pixelwise"), ["T3"]), (dict(p=1.0, mode="channelwise", max_count=3), ["T3b"])],
    "KDRandomGaussianBlurPIL": [(dict(p=0.5, sigma=(0.1, 2.0)), ["PIL"])],
    "KDRandomGaussianBlurTV": [(dict(p=0.5, kernel_size=3, sigma=(0.1, 2.0)), ["T3"])],
    "KDRandomGrayscale": [(dict(p=0.5), ["T3", "PIL"]), (dict(p=0.0), ["T3"]), (dict(p=1.0), ["T3"])],
    "KDRandomHorizontalFlip": [(dict(), ["T3", "PIL"]), (dict(p=1.0), ["T3"])],
    "KDRandomResizedCrop": [(dict(size=4), ["T3", "PILb", "T3x", "T3xx", "PILxx"])],
    "KDRandomRotation": [(dict(degrees=30), ["T3", "PIL"])],
    "KDRandomSolarize": [(dict(p=0.5, threshold=0.5), ["T3"]), (dict(p=0.5, threshold=128), ["PIL"])],
    "KDRandomThreshold": [(dict(p=0.5, threshold=0.5, threshold_std=0.1), ["T3"])],
    "KDSimpleRandomCrop": [(dict(size=8, padding=2, interpolation="bilinear"), ["T3"])],
    "KDThreeAugment": [(dict(threshold=128, sigma=(0.1, 2.0)), ["PIL"]), (dict(threshold=0.5, sigma=(0.1, 2.0)), ["T3"]),
                       (dict(threshold=0.5, sigma=(0.1, 2.0), kernel_size=3, blur_kind="tv"), ["T3"])],
    "KDThreshold": [(dict(threshold=0.5, threshold_std=0.1), ["T3"])],
    "PatchwiseRandomRotation": [(dict(), ["PATCH"])],
    "PatchwiseShuffle": [(dict(), ["PATCH"])],
    "KDMagnitudeJitter": [(dict(alpha=10), ["SPEC"])],
    "KDRoll": [(dict(), ["SPEC", "T3"])],
    "KDSpecAugment": [(dict(time_masking=3, frequency_masking=2), ["SPEC"])],
    "KDSemsegRandomCrop": [(dict(size=4), ["PAIR"]), (dict(size=4, max_category_ratio=0.75), ["PAIRb"])],
    "KDSemsegRandomHorizontalFlip": [(dict(), ["PAIR"])],
    "KDSemsegRandomResize": [(dict(base_size=(8, 8), ratio=(0.5, 2.0), interpolation="nearest"), ["PAIR"])],
    "KDSemsegRandomResizeOld": [(dict(base_size=(8, 8), ratio=(0.5, 2.0), interpolation="nearest"), ["PAIR"])],
    "BYOLTransform": [(dict(size=8), ["PIL", "PILxx"]), (dict(size=8, norm=None), ["PILb", "PILx"])],
    "BYOLTransform0": [(dict(size=8), ["PIL"])],
    "BYOLTransform1": [(dict(size=8), ["PIL"])],
    "ImagenetMinaugTransform": [(dict(size=8), ["PIL", "PILx", "PILxx"])],
    "MAEFinetuneTransform": [(dict(), ["PIL"])],
    "MUGSStrongTransform": [(dict(size=8), ["PIL", "PILxx"])],
    "MUGSStrongGlobalTransform": [(dict(size=8), ["PIL"])],
    "MUGSStrongLocalTransform": [(dict(size=8), ["PILb"])],
    "KDTransformChoice": [(dict(), ["T3"])],
}

# composition wrappers and deterministic transforms: covered through the grammar / not stochastic
STRUCTURAL = {"KDComposeTransform", "KDRandomApply", "PatchwiseTransform", "KDScheduledTransform", "KDRandomApplyBase",
              "KDStochasticTransform", "KDTransform", "KDIdentityTransform", "KDNormBase"}

SCALABLE_LEAVES = [("leaf", "KDGaussianBlurTV", 0), ("leaf", "KDColorJitter", 0), ("leaf", "KDRandomColorJitter", 0),
                   ("leaf", "KDRandomGrayscale", 0), ("leaf", "KDRandomSolarize", 0), ("leaf", "KDRandomThreshold", 0),
                   ("leaf", "KDAdditiveGaussianNoise", 1), ("leaf", "KDRandomRotation", 0), ("leaf", "KDRandomGaussianBlurTV", 0)]

# T3 -> T3 (shape preserving) leaves used inside compositions
COMPOSABLE = [
    ("leaf", "KDAdditiveGaussianNoise", 0), ("leaf", "KDColorJitter", 0), ("leaf", "KDRandomColorJitter", 0),
    ("leaf", "KDRandomGrayscale", 0), ("leaf", "KDRandomHorizontalFlip", 0), ("leaf", "KDRandomCrop", 1),
    ("leaf", "KDRandomErasing", 0), ("leaf", "KDRandomGaussianBlurTV", 0), ("leaf", "KDRandomThreshold", 0),
    ("leaf", "KDRandomAdditiveGaussianNoise", 0), ("leaf", "KDThreshold", 0), ("leaf", "KDRandomSolarize", 0),
    ("leaf", "KDAdditiveUniformNoise", 0), ("leaf", "KDSimpleRandomCrop", 0), ("leaf", "KDRandomRotation", 0),
]

_CLASSES = {}
_UNIMPORTABLE = []


def discover():
    """All KDTransform subclasses reachable by walking the transform packages; modules that cannot be imported are listed."""
    if _CLASSES:
        return _CLASSES, _UNIMPORTABLE
    import kappadata.transforms
    import kappadata.common.transforms
    from kappadata.transforms.base.kd_transform import KDTransform
    for pkg in (kappadata.transforms, kappadata.common.transforms):
        for m in pkgutil.walk_packages(pkg.__path__, pkg.__name__ + "."):
            try:
                mod = importlib.import_module(m.name)
            except Exception as e:
                _UNIMPORTABLE.append(f"{m.name}: {type(e).__name__}: {e}")
                continue
            for name, obj in vars(mod).items():
                if isinstance(obj, type) and issubclass(obj, KDTransform) and obj.__module__ == mod.__name__:
                    _CLASSES[name] = obj
    return _CLASSES, _UNIMPORTABLE


def leaf_class(name):
    return discover()[0][name]


class Plain:
    """a plain callable member (torchvision transform / lambda): knows nothing about generators, strength or workers"""

    def __call__(self, x):
        return x * 1.0


def build(spec):
    kind = spec[0]
    if kind == "plain":
        return Plain()
    if kind == "scaled":
        t = build(spec[2])
        t.scale_strength(spec[1])  # e.g. what a scheduled transform does before its first batch (strength 0)
        return t
    if kind == "leaf":
        kwargs, _ = LEAVES[spec[1]][spec[2]]
        if spec[1] == "KDTransformChoice":
            return _choice()
        return leaf_class(spec[1])(**kwargs)
    if kind == "compose":
        from kappadata.transforms.base.kd_compose_transform import KDComposeTransform
        return KDComposeTransform([build(s) for s in spec[1:]])
    if kind == "random_apply":
        from kappadata.transforms.kd_random_apply import KDRandomApply
        return KDRandomApply(transform=build(spec[2]), p=spec[1])
    if kind == "patchwise":
        from kappadata.transforms.patchwise_transform import PatchwiseTransform
        return PatchwiseTransform(patch_size=spec[1], transform=build(spec[2]))
    if kind == "scheduled":
        from kappadata.transforms.base.kd_scheduled_transform import KDScheduledTransform
        return KDScheduledTransform(build(spec[1]))
    raise ValueError(spec)


def _choice(**_):
    from kappadata.transforms.kd_transform_choice import KDTransformChoice
    return KDTransformChoice([build(("leaf", "KDRandomColorJitter", 0)), build(("leaf", "KDRandomThreshold", 0)),
                              build(("leaf", "KDAdditiveGaussianNoise", 0))])


def spec_inputs(spec):
    if spec[0] == "leaf":
        return LEAVES[spec[1]][spec[2]][1]
    return ["T3"]


def spec_name(spec):
    kind = spec[0]
    if kind == "plain":
        return "plain"
    if kind == "scaled":
        return f"Scaled{spec[1]}({spec_name(spec[2])})"
    if kind == "leaf":
        return spec[1] + (f"#{spec[2]}" if spec[2] else "")
    if kind == "compose":
        return "Compose[" + ",".join(spec_name(s) for s in spec[1:]) + "]"
    if kind == "random_apply":
        return f"RandomApply({spec_name(spec[2])})"
    if kind == "patchwise":
        return f"Patchwise({spec_name(spec[2])})"
    if kind == "scheduled":
        return f"Scheduled({spec_name(spec[1])})"


def spec_classes(spec):
    """Class names only (signature material)."""
    return spec_name(spec).replace("#1", "").replace("#2", "")


def leaf_specs():
    return [("leaf", name, i) for name, variants in LEAVES.items() for i in range(len(variants))]


def composition_specs(depth, reduced=None):
    """Compositions of COMPOSABLE leaves. depth 1: one combinator over leaves; depth 2: combinators nested twice over a
    reduced leaf set."""
    leaves = COMPOSABLE
    out = []
    for a in leaves:
        out.append(("random_apply", 0.5, a))
        out.append(("random_apply", 1.0, a))
        out.append(("patchwise", 4, a))
        out.append(("scheduled", a))
        for b in leaves:
            out.append(("compose", a, b))
    # plain callables at every position of a composition
    pl = ("plain",)
    for a in [COMPOSABLE[i] for i in (0, 2, 4, 8)]:
        b = COMPOSABLE[3]
        out += [("compose", pl, a), ("compose", a, pl, b), ("compose", pl, pl, a, b), ("random_apply", 0.5, ("compose", pl, a)),
                ("scheduled", ("compose", b, pl, a)), ("compose", ("compose", pl, a), b)]
    # transforms whose strength was scaled before use: ranges collapse (factor 0) or shrink (0.5)
    for a in SCALABLE_LEAVES:
        for f in (0.0, 0.5):
            out.append(("scaled", f, a))
        out.append(("scaled", 0.0, ("compose", a, COMPOSABLE[4])))
    if depth >= 2:
        red = reduced or [COMPOSABLE[i] for i in (2, 4, 8, 9, 6)]
        d1 = []
        for a in red:
            d1 += [("random_apply", 0.5, a), ("patchwise", 4, a), ("scheduled", a)]
            for b in red:
                d1.append(("compose", a, b))
        for x in d1:
            out.append(("random_apply", 1.0, x))
            out.append(("scheduled", x))
            if x[0] != "patchwise":
                out.append(("patchwise", 4, x))
            out.append(("compose", x, red[0]))
            out.append(("compose", red[1], x))
    if depth >= 3:
        red = reduced or [COMPOSABLE[i] for i in (2, 8, 9)]
        for a in red:
            out.append(("compose", ("scheduled", ("random_apply", 1.0, a)), ("patchwise", 4, ("compose", a, red[0]))))
            out.append(("scheduled", ("compose", ("random_apply", 0.5, ("compose", a, red[1])), a)))
            out.append(("random_apply", 1.0, ("scheduled", ("patchwise", 4, a))))
    return out
