"""C16 - label-rewriting wrappers are coherent, in range and reproducible (E1 product)."""
import itertools

from ..core.runner import Partial

LEVEL = "exploration"
RULE = ("all label layouts of length 1..L over 2..4 declared classes x the parameter grid of every label-rewriting wrapper "
        "(class groups, random superclass, swap label, overwrite classes, all-gather, pseudo labels hard/soft/thresholded/top-k, "
        "random class, semi, label smoothing, one-hot); bulk accessor (the library's getall utility) vs per-sample accessor, label "
        "range vs the wrapper's class-shape query, wrapped data and the wrapped label list untouched, same arguments + seed give "
        "the same mapping under a different global RNG state, encodings non-negative / sum one / original class at the maximum, "
        "a bulk-consuming wrapper (sort-by-class) on top, and label smoothing on binary datasets (class shape (1,)) with unlabeled "
        "samples; distinct = distinct (wrapper, parameters, layout, labels)")

REJECT = (AssertionError, NotImplementedError)
CONTAINER = [None]  # None: python list; "torch" / "numpy": uint8 label containers
_LIB = {}


def lib():
    if _LIB:
        return _LIB
    import importlib
    import sys
    import numpy as np
    import torch
    from kappadata.datasets.kd_dataset import KDDataset
    importlib.import_module("kappadata.utils.getall_as_tensor")
    gat = sys.modules["kappadata.utils.getall_as_tensor"]

    class Base(KDDataset):
        def __init__(self, layout, C):
            super().__init__()
            self.layout = list(layout)
            self.C = C

        def __len__(self):
            return len(self.layout)

        def getitem_x(self, idx, ctx=None):
            return ("x", int(idx))

        def getitem_class(self, idx, ctx=None):
            return self.layout[idx]

        def getall_class(self):
            if CONTAINER[0] is not None:
                # labels stored compactly (uint8 tensor / array), as image datasets keep their targets
                import numpy as _np
                return torch.tensor(self.layout, dtype=torch.uint8) if CONTAINER[0] == "torch" else _np.array(self.layout, dtype=_np.uint8)
            return self.layout  # the internal list, as KDRandomClassWrapper.getall_class does

        def getshape_class(self):
            return (self.C,)

    _LIB.update(np=np, torch=torch, Base=Base, gat=gat)
    return _LIB


def cls_of(name):
    import importlib
    import re
    mod = re.sub(r"(?<!^)(?=[A-Z])", "_", name).lower().replace("k_d_", "kd_")
    for pkg in ("dataset_wrappers", "sample_wrappers"):
        try:
            return getattr(importlib.import_module(f"kappadata.wrappers.{pkg}.{mod}"), name)
        except ModuleNotFoundError:
            continue
    raise ValueError(name)


def soft_table(n, C):
    import torch
    g = torch.Generator().manual_seed(5)
    t = torch.rand(n, C, generator=g) + 0.05
    return t / t.sum(dim=1, keepdim=True)


def configs(n, C, lay):
    """(wrapper name, kwargs factory, seeded: bool, vector labels: bool)"""
    import torch
    out = []
    for cpg in [d for d in range(1, C + 1) if C % d == 0]:
        for shuffle in (False, True):
            for seed in (0, 1, None):
                out.append(("ClassGroupsWrapper", dict(classes_per_group=cpg, shuffle=shuffle, seed=seed), True))
    for cps in sorted({1, 2, C}):
        for splits in (1, 2, 3):
            for shuffle in (False, True):
                for seed in (0, 1, None):
                    out.append(("RandomSuperclassWrapper", dict(classes_per_superclass=cps, superclass_splits=splits,
                                                                shuffle=shuffle, seed=seed), True))
    for p_ in (0.0, 0.5, 1.0):
        for seed in (0, 1, None):
            out.append(("SwapLabelWrapper", dict(p=p_, seed=seed), True))
    out.append(("OverwriteClassesWrapper", dict(classes=list(reversed(lay))), True))
    out.append(("OverwriteClassesWrapper", dict(classes=torch.tensor(list(reversed(lay)))), True))
    for W in range(1, n + 1):
        out.append(("AllgatherClassWrapper", dict(world_size=W), True))
    hard = torch.tensor([(c + 1) % C for c in lay])
    soft = soft_table(n, C)
    out.append(("KDPseudoLabelWrapper", dict(pseudo_labels=hard), True))
    out.append(("KDPseudoLabelWrapper", dict(pseudo_labels=soft), True))
    for th in (0.3, 0.45, 0.6):
        out.append(("KDPseudoLabelWrapper", dict(pseudo_labels=soft, threshold=th), True))
    # rows whose confidence sits exactly on the threshold (uniform rows: softmax = 1/C; saturated rows: softmax = 1)
    tied = torch.zeros(n, C)
    for i in range(n):
        if i % 3 == 1:
            tied[i, lay[i]] = 200.0
        elif i % 3 == 2:
            tied[i, lay[i]] = 1.0
    for th in (1.0 / C, 1.0, 0.5):
        out.append(("KDPseudoLabelWrapper", dict(pseudo_labels=tied, threshold=th), True))
    for tau in (None, 1.0, float("inf")):
        for seed in (0, 3):
            out.append(("KDPseudoLabelWrapper", dict(pseudo_labels=soft, topk=min(2, C), tau=tau, seed=seed), True))
            if seed == 0:
                out.append(("KDPseudoLabelWrapper", dict(pseudo_labels=soft, topk=C, tau=tau, seed=seed), True))
                out.append(("KDPseudoLabelWrapper", dict(pseudo_labels=soft, topk=1, tau=tau, seed=seed), True))
    for mode, mk in (("random", None), ("randperm", None), ("gatherbug", dict(world_size=2))):
        for nc in (None, 5):
            for seed in (0, 1):
                out.append(("KDRandomClassWrapper", dict(mode=mode, mode_kwargs=mk, num_classes=nc, seed=seed), True))
                if mk is None:
                    out.append(("KDRandomClassWrapper", dict(mode=mode, mode_kwargs=mk, num_classes=nc, seed=seed, _via_setters=True), True))
    for sp in (0.0, 0.5, 1.0):
        for seed in (0, 1, None):
            out.append(("SemiWrapper", dict(semi_percent=sp, seed=seed), True))
    for sm in (0, 0.0, 0.1, 0.5, 1.0):
        out.append(("LabelSmoothingWrapper", dict(smoothing=sm), True))
    out.append(("OneHotWrapper", dict(), True))
    return out


def build(name, base, kw):
    if kw.get("_via_setters"):
        # reach the configuration through the public setters of an object that was built with another one
        kw = {k: v for k, v in kw.items() if k != "_via_setters"}
        other = dict(kw, seed=(kw.get("seed") or 0) + 7, num_classes=(kw.get("num_classes") or 3) + 2,
                     mode="randperm" if kw.get("mode") != "randperm" else "random", mode_kwargs=None)
        w = cls_of(name)(dataset=base, **other)
        if kw.get("mode_kwargs") is not None:
            w.mode_kwargs = kw["mode_kwargs"]
        w.mode = kw["mode"]
        w.num_classes = kw["num_classes"] if kw.get("num_classes") is not None else base.getdim_class()
        w.seed = kw["seed"]
        return w
    return cls_of(name)(dataset=base, **kw)


def tolist(v):
    import torch
    import numpy as np
    if torch.is_tensor(v):
        return v.tolist()
    if isinstance(v, np.ndarray):
        return v.tolist()
    if isinstance(v, (np.integer,)):
        return int(v)
    return v


def kwsig(name, kw):
    keys = []
    for k, v in sorted(kw.items()):
        if k in ("seed",):
            continue
        if k == "pseudo_labels":
            keys.append(f"pseudo={'hard' if v.ndim == 1 else 'soft'}")
        elif k == "classes":
            keys.append("classes=" + type(v).__name__)
        elif k == "_via_setters":
            keys.append("via_setters")
        elif v is not None and k in ("threshold", "topk", "tau", "mode", "shuffle"):
            keys.append(f"{k}={'set' if k in ('threshold',) else v}")
    return ",".join(keys)


def inner_menu(C):
    """Label-rewriting wrappers that change the class count, to put *below* the wrapper under test."""
    out = [("RandomSuperclassWrapper", dict(classes_per_superclass=2, superclass_splits=1, shuffle=False, seed=0)),
           ("KDRandomClassWrapper", dict(mode="random", num_classes=2, seed=0)),
           ("KDRandomClassWrapper", dict(mode="random", num_classes=5, seed=1))]
    if C % 2 == 0:
        out.append(("ClassGroupsWrapper", dict(classes_per_group=2, shuffle=False, seed=0)))
    return out


def stack_inner(base, inner):
    """-> (dataset the wrapper under test wraps, its per-sample labels, its class count)"""
    if inner is None:
        return base, list(base.layout), base.C
    mid = build(inner[0], base, inner[1])
    return mid, [int(mid.getitem_class(i)) for i in range(len(base.layout))], int(mid.getdim_class())


def check(name, kw, lay, C, p, inner=None):
    L = lib()
    np, torch = L["np"], L["torch"]
    n = len(lay)
    case = dict(wrapper=name, kwargs={k: (tolist(v) if hasattr(v, "tolist") else v) for k, v in kw.items()}, layout=list(lay), C=C,
                inner=[inner[0], inner[1]] if inner else None, container=CONTAINER[0])
    tag = f"|{name}|{kwsig(name, kw)}" + (f"|on_top_of={inner[0]}" if inner else "") + (f"|uint8_{CONTAINER[0]}_labels" if CONTAINER[0] else "")
    root_lay, root_C = lay, C

    def bad(kind, msg):
        # the bulk accessor of a wrapper is one call site whatever it is stacked on
        t = tag.split("|on_top_of=")[0] if kind == "bulk_differs_from_per_sample" else tag
        p.violation(f"C16:{kind}{t}", case, f"{name}({case['kwargs']}) on labels {list(lay)} ({C} classes): {msg}")

    np.random.seed(11)
    torch.manual_seed(11)
    base = L["Base"](lay, C)
    try:
        below, lay, C = stack_inner(base, inner)
        w = build(name, below, kw)
    except REJECT:
        p.count("rejected")
        return
    except Exception as e:
        bad(f"exception_at_construct:{type(e).__name__}", repr(e))
        return
    p.evaluations += 1
    if kw.get("_via_setters"):
        # the bulk accessor is asked FIRST (as a wrapper stacked on top does in its constructor); reference: an object built
        # directly with the final configuration
        try:
            first_bulk = [tolist(b) for b in L["gat"].getall(w, "class")]
            ref_w = build(name, stack_inner(L["Base"](root_lay, root_C), inner)[0], {k: v for k, v in kw.items() if k != "_via_setters"})
            ref_per = [tolist(ref_w.getitem_class(i)) for i in range(n)]
            if first_bulk != ref_per:
                bad("labels_after_setters_differ_from_fresh_object", f"bulk labels right after the setters {first_bulk}, an object "
                    f"constructed with the same final configuration gives {ref_per}")
                return
        except REJECT:
            p.count("rejected")
            return
        except Exception as e:
            bad(f"exception_after_setters:{type(e).__name__}", repr(e))
            return
    try:
        per = [tolist(w.getitem_class(i)) for i in range(n)]
        per2 = [tolist(w.getitem_class(i)) for i in range(n)]
    except REJECT:
        p.count("rejected")
        return
    except Exception as e:
        bad(f"exception_at_getitem:{type(e).__name__}", repr(e))
        return
    seeded = kw.get("seed", 0) is not None
    if seeded and per != per2:
        bad("per_sample_label_not_stable", f"{per} then {per2}")
    # bulk == per-sample (bulk = what the library's own entry point returns)
    try:
        bulk = L["gat"].getall(w, "class")
        bulk = [tolist(b) for b in (bulk.tolist() if hasattr(bulk, "tolist") else bulk)]
        if seeded and bulk != per:
            bad("bulk_differs_from_per_sample", f"getall -> {bulk}, per-sample -> {per}")
    except REJECT:
        p.count("bulk_not_available")
    except Exception as e:
        bad(f"exception_at_getall:{type(e).__name__}", repr(e))
    # wrapped data and the wrapped dataset's own labels untouched
    if base.layout != list(root_lay) or [base.getitem_class(i) for i in range(n)] != list(root_lay) \
            or [int(below.getitem_class(i)) for i in range(n)] != list(lay):
        bad("wrapped_labels_mutated", f"wrapped dataset now has labels {base.layout} / {[int(below.getitem_class(i)) for i in range(n)]}")
        base.layout[:] = list(root_lay)
    if [w.getitem_x(i) for i in range(n)] != [("x", i) for i in range(n)]:
        bad("other_item_changed", "x differs")
    # range
    vector = any(isinstance(v, list) for v in per)
    try:
        shape = w.getshape_class()
        rng_hi = shape[0]
    except Exception as e:
        bad(f"exception_at_getshape:{type(e).__name__}", repr(e))
        return
    if not vector:
        for i, v in enumerate(per):
            if not (v == -1 or (isinstance(v, (int, float)) and 0 <= v < rng_hi)):
                bad("label_out_of_announced_range", f"sample {i} has label {v}, getshape_class() = {shape}")
                break
    else:
        for i, v in enumerate(per):
            if not isinstance(v, list):
                continue
            if lay[i] == -1:
                continue
            if min(v) < -1e-7 or abs(sum(v) - 1) > 1e-5 or v[lay[i]] < max(v) - 1e-7 or len(v) != C:
                bad("encoding_malformed", f"sample {i} (class {lay[i]}): {v}")
                break
    # reproducible under a different global RNG state
    if seeded:
        np.random.seed(99)
        torch.manual_seed(99)
        try:
            w2 = build(name, stack_inner(L["Base"](root_lay, root_C), inner)[0], kw)
            per3 = [tolist(w2.getitem_class(i)) for i in range(n)]
            if per3 != per:
                bad("mapping_depends_on_global_rng", f"{per} vs {per3}")
        except Exception as e:
            bad(f"exception_at_rebuild:{type(e).__name__}", repr(e))
    # a bulk-consuming wrapper on top
    if not vector and all(isinstance(v, int) and v >= 0 for v in per) and n > 0:
        try:
            from kappadata.wrappers.dataset_wrappers.sort_by_class_wrapper import SortByClassWrapper
            s = SortByClassWrapper(w)
            order = [w.getitem_class(int(i)) for i in s.indices]
            if sorted(tolist(o) for o in order) != [tolist(o) for o in order] or len(order) != n:
                bad("bulk_consumer_sees_other_labels", f"SortByClassWrapper on top orders per-sample labels as {order}")
        except REJECT:
            pass
        except Exception as e:
            bad(f"exception_in_bulk_consumer:{type(e).__name__}", repr(e))
    p.observe((name, repr(sorted(case["kwargs"].items(), key=str)), tuple(root_lay), inner[0] if inner else None, repr(per)))


def binary_smoothing(p, maxlen):
    """Binary datasets (class shape (1,), scalar labels 0/1) with unlabeled samples: the one wrapper that has an explicit
    binary branch. A smoothed label stays on its side of 0.5 inside [0, 1]; an unlabeled sample stays the -1 marker."""
    L = lib()
    for n in range(1, maxlen + 1):
        for lay in itertools.product((0, 1, -1), repeat=n):
            for sm in (0, 0.0, 0.1, 0.5, 1.0):
                for below in (None, "SemiWrapper"):
                    base = L["Base"](lay, 1)
                    case = dict(binary=True, layout=list(lay), smoothing=sm, below=below)
                    tag = f"|LabelSmoothingWrapper|binary{'|on_top_of=SemiWrapper' if below else ''}"
                    p.evaluations += 1
                    try:
                        inner = build("SemiWrapper", base, dict(semi_percent=0.5, seed=0)) if below else base
                        src = [tolist(inner.getitem_class(i)) for i in range(n)]
                        w = build("LabelSmoothingWrapper", inner, dict(smoothing=sm))
                        out = [tolist(w.getitem_class(i)) for i in range(n)]
                    except REJECT:
                        p.count("rejected")
                        continue
                    except Exception as e:
                        p.violation(f"C16:exception_at_getitem:{type(e).__name__}{tag}", case, f"labels {list(lay)} smoothing {sm}: {e!r}")
                        continue
                    for i, (y, v) in enumerate(zip(src, out)):
                        flat = v if isinstance(v, list) else [v]
                        if y == -1:
                            ok = all(x == -1 for x in flat)
                        else:
                            ok = len(flat) == 1 and abs(flat[0] - (1 - sm / 2 if y == 1 else sm / 2)) < 1e-6
                        if not ok:
                            p.violation(f"C16:{'unlabeled_marker_lost' if y == -1 else 'encoding_malformed'}{tag}", case,
                                        f"binary labels {src} smoothing {sm}: sample {i} (label {y}) became {v}")
                            break
                    else:
                        p.observe(("binary_smoothing", lay, sm, below, repr(out)))
    return p


STACK_MAXLEN = [3]


def layouts(maxlen):
    for C in (2, 3, 4):
        for n in range(1, maxlen + 1):
            for lay in itertools.product(range(C), repeat=n):
                yield lay, C


def task(items):
    p = Partial()
    L = lib()
    if items and items[0] == "binary":
        return binary_smoothing(p, items[1])
    if items and items[0] == "containers":
        # the wrappers that introduce the unlabeled marker / rewrite through the bulk labels, over uint8 label containers
        for cont in ("torch", "numpy"):
            CONTAINER[0] = cont
            try:
                for lay, C in items[1]:
                    for name, kw, _ in configs(len(lay), C, lay):
                        if name not in ("SemiWrapper", "SwapLabelWrapper", "ClassGroupsWrapper", "RandomSuperclassWrapper") or kw.get("seed", 0) != 0:
                            continue
                        n0 = len(p.violations)
                        try:
                            check(name, kw, lay, C, p)
                        except Exception as e:
                            p.violation(f"C16:exception:{type(e).__name__}|{name}|{kwsig(name, kw)}|uint8_{cont}_labels",
                                        dict(wrapper=name, layout=list(lay), C=C, container=cont), f"{name} on uint8 {cont} labels {list(lay)}: {e!r}")
            finally:
                CONTAINER[0] = None
        return p
    for lay, C in items:
        stacks = [None] + (inner_menu(C) if len(lay) <= STACK_MAXLEN[0] else [])
        for inner in stacks:
            try:
                _, lay_eff, C_eff = stack_inner(L["Base"](lay, C), inner)
            except Exception as e:
                p.count(f"inner_rejected:{inner[0]}:{type(e).__name__}")
                continue
            if C_eff < 2:
                p.count("inner_skipped_single_class")  # a class dimension of 1 means 'binary' in this library: other conventions
                continue
            if any(not (v == -1 or 0 <= v < C_eff) for v in lay_eff):
                # the wrapper below already hands out labels outside the range it announces: a violation of its own
                p.violation(f"C16:label_out_of_announced_range|{inner[0]}|{kwsig(inner[0], inner[1])}|as_lower_wrapper",
                            dict(wrapper=inner[0], kwargs=inner[1], layout=list(lay), C=C),
                            f"{inner[0]}({inner[1]}) on labels {list(lay)} ({C} classes): labels {lay_eff}, getdim_class() = {C_eff}")
                continue
            for name, kw, _ in configs(len(lay), C_eff, lay_eff):
                if inner is not None and kw.get("seed", 0) == 1:
                    continue  # stacked: one seed per wrapper
                try:
                    check(name, kw, lay, C, p, inner)
                except Exception as e:
                    p.violation(f"C16:exception:{type(e).__name__}|{name}|{kwsig(name, kw)}" + (f"|on_top_of={inner[0]}" if inner else ""),
                                dict(wrapper=name, kwargs={k: (tolist(v) if hasattr(v, "tolist") else v) for k, v in kw.items()},
                                     layout=list(lay), C=C, inner=[inner[0], inner[1]] if inner else None),
                                f"{name} on labels {list(lay)}: {e!r}")
    p.sample(dict(layout=list(items[-1][0]), classes=items[-1][1], wrappers=sorted({c[0] for c in configs(len(items[-1][0]), items[-1][1], items[-1][0])})))
    return p


def run(run):
    maxlen = 4 if run.tier == "quick" else 5
    STACK_MAXLEN[0] = 3 if run.tier == "quick" else 4
    lays = list(layouts(maxlen))
    chunk = 8 if run.tier == "quick" else 24
    run.pmap(task, [lays[i:i + chunk] for i in range(0, len(lays), chunk)][::-1] + [("binary", maxlen)] +
             [("containers", [l for l in lays if len(l[0]) in (2, 3) and l[1] in (2, 4)])])
    run.extra.update(bounds=dict(layout_len=f"1..{maxlen}", classes="2..4",
                                 stacked=f"every wrapper also on top of each class-count-changing wrapper {sorted({i[0] for i in inner_menu(4)})} "
                                         f"for layouts of length <= {STACK_MAXLEN[0]}"), layouts=len(lays))
    run.assumptions += [
        "group sizes divide the class count, world sizes do not exceed the dataset size (stated domain)",
        "the wrapped dataset hands out its internal label list from getall_class (as KDRandomClassWrapper does)",
        "AssertionError / NotImplementedError = explicit 'not available'",
    ]


def replay(case):
    import torch
    p = Partial()
    if case.get("binary"):
        binary_smoothing(p, len(case["layout"]))
        return None if not p.violations else "; ".join(m for _, m in list(p.violations.values())[:3])
    kw = dict(case["kwargs"])
    if "pseudo_labels" in kw:
        kw["pseudo_labels"] = torch.tensor(kw["pseudo_labels"])
    if case["wrapper"] == "OverwriteClassesWrapper" and isinstance(kw.get("classes"), list):
        pass
    inner = case.get("inner")
    CONTAINER[0] = case.get("container")
    try:
        check(case["wrapper"], kw, tuple(case["layout"]), case["C"], p, tuple(inner) if inner else None)
    finally:
        CONTAINER[0] = None
    return None if not p.violations else "; ".join(m for _, m in list(p.violations.values())[:3])
