"""C05 - interleaved scheduler: side passes run exactly when due, whole, unmixed (E3 + dataloader-level drive)."""
from ..core.runner import Partial
from ..models import interleaved_ref as ref
from . import interleaved_common as ic

LEVEL = "model_checking"
RULE = ("C04's geometries x budgets (plus the zero budgets, plus long budgets of 5 / 7 epochs for N<=4 with no or one config) x config sets (every single config of the menu "
        "intervals{ene,enu,ens incl. mixed kinds} x sampler length{0,1,3} x data-source slack{0,2} x batch size{None,1,2}; "
        "pairs/triples from a reduced menu); full (main+side) stream compared event by event with the reference model; "
        "on a sub-lattice the batch sampler / dataset / collator level is driven as DataLoader(num_workers=0) does and "
        "the real get_data_loader(0) is iterated; distinct = distinct full event streams")


def bounds(tier):
    if tier == "quick":
        return dict(maxN=5, pair_menu=8, triples=3, dl_every=16, real_dl_every=256)
    return dict(maxN=8, pair_menu=22, triples=5, dl_every=8, real_dl_every=64)


def kinds_of(cfg):
    return "".join(k for k, v in zip("eus", cfg[:3]) if v is not None)


def signature(kind, geo, bud, cfgs, level="stream", culprit=None):
    """The culprit is the config whose pass is missing / spurious / malformed at the first difference."""
    if culprit is not None and culprit < len(cfgs):
        c = cfgs[culprit]
        who = f"config_intervals={kinds_of(c)}|cfg_batch_size={'set' if c[5] else 'main'}|position={min(culprit, 1)}"
    else:
        who = f"intervals={'/'.join(kinds_of(c) for c in cfgs)}"
    return f"C05:{level}:{kind}|{who}{'|zero_budget' if bud[1] == 0 else ''}"


def strip_epochs(ev):
    return [x for x in ev if x[0] != 'E']


class RecDS:
    def __init__(self, tag, n):
        self.tag, self.n = tag, n

    def __len__(self):
        return self.n

    def __getitem__(self, i):
        assert 0 <= i < self.n, f"index {i} out of range for dataset {self.tag} (len {self.n})"
        return (self.tag, int(i))


class RecCollator:
    def __init__(self, tag):
        self.tag = tag

    def __call__(self, items):
        return ("collated", self.tag, [tuple(x) for x in items])


def build_dl(geo, bud, cfgs):
    from kappadata.samplers.interleaved_sampler import InterleavedSampler, InterleavedSamplerConfig
    N, B, drop_last, dlbs = geo
    log = ic.Log()
    main = ic.MainSampler(N, log)
    main.data_source = RecDS(0, N * ic.MAIN_DLEN_FACTOR)
    configs = []
    for ci, c in enumerate(cfgs):
        s = ic.SideSampler(ci, c[3], c[4], log)
        s.data_source = RecDS(ci + 1, c[4])
        configs.append(InterleavedSamplerConfig(sampler=s, every_n_epochs=c[0], every_n_updates=c[1],
                                                every_n_samples=c[2], batch_size=c[5], collator=RecCollator(ci + 1)))
    return InterleavedSampler(main_sampler=main, batch_size=B, configs=configs, drop_last=drop_last,
                              drop_last_batch_size=dlbs, main_collator=RecCollator(0), **{bud[0]: bud[1]})


def expected_batches(geo, cfgs, model):
    offs = ref.side_offsets(geo[0] * ic.MAIN_DLEN_FACTOR, cfgs)
    exp, rest = ref.batches(model)
    assert not rest
    out = []
    for b in exp:
        if b[0][0] == 'M':
            out.append(("collated", 0, [(0, x[2]) for x in b]))
        else:
            c = b[0][1]
            out.append(("collated", c + 1, [(c + 1, x[2] - offs[c]) for x in b]))
    return out


def drive_dl(geo, bud, cfgs, model, real):
    """Dataloader level. real=False: exactly what DataLoader(num_workers=0) does, by hand; real=True: get_data_loader(0)."""
    exp = expected_batches(geo, cfgs, model)
    try:
        s = build_dl(geo, bud, cfgs)
        if real:
            got = [b for b in s.get_data_loader(num_workers=0)]
        else:
            got = [s.collator([s.dataset[i] for i in b]) for b in s.batch_sampler]
    except Exception as e:
        return f"exception:{type(e).__name__}", repr(e)[:300]
    norm = lambda gs: [(g[0], g[1], [tuple(x) for x in g[2]]) if isinstance(g, tuple) and len(g) == 3 else g for g in gs]
    got = norm(got)
    if got != exp:
        k = ic.first_diff(exp, got)
        return "batch_mismatch", dict(at=k, model=exp[k:k + 2], impl=got[k:k + 2], n_model=len(exp), n_impl=len(got))
    # the same object after an iteration that was abandoned part-way (first batch only / inside the first side pass / half-way)
    side_at = next((i for i, b in enumerate(exp) if b[1] != 0), None)
    for k in sorted({1, len(exp) // 2} | ({side_at + 1} if side_at is not None else set())):
        if not 0 < k < len(exp):
            continue
        try:
            it = iter(s.get_data_loader(num_workers=0)) if real else iter(s.batch_sampler)
            for _ in range(k):
                next(it)
            del it
            if real:
                again = [b for b in s.get_data_loader(num_workers=0)]
            else:
                again = [s.collator([s.dataset[i] for i in b]) for b in s.batch_sampler]
        except Exception as e:
            return f"after_abandoned_iteration:exception:{type(e).__name__}", repr(e)[:300]
        again = norm(again)
        if again != exp:
            d = ic.first_diff(exp, again)
            return "after_abandoned_iteration:batch_mismatch", dict(abandoned_after_batches=k, at=d, model=exp[d:d + 2], impl=again[d:d + 2])
    return None, None


def check_one(geo, bud, cfgs, dl=False, real_dl=False):
    model, _ = ref.trace(geo, bud, cfgs, geo[0] * ic.MAIN_DLEN_FACTOR)
    horizon = len(model) + ic.side_max_len(cfgs) + geo[1] + 2
    try:
        s, log = ic.build(geo, bud, cfgs)
        impl, overrun = ic.impl_events(s, log, horizon)
    except Exception as e:
        return "stream", f"exception:{type(e).__name__}", repr(e)[:300], 0, None
    sm, si = strip_epochs(model), strip_epochs(impl)
    kind = ic.classify(sm, si, overrun)
    if kind is not None:
        k = ic.first_diff(sm, si)
        detail = dict(first_diff_at=k, model=sm[max(0, k - 2):k + 3], impl=si[max(0, k - 2):k + 3],
                      model_len=len(sm), impl_len=len(si))
        ev = [e for e in (sm[k] if k < len(sm) else None, si[k] if k < len(si) else None) if e and e[0] == 'S']
        detail["culprit"] = ev[0][1] if ev else None
        return "stream", kind, detail, len(impl), None
    if dl:
        kind, detail = drive_dl(geo, bud, cfgs, model, real=False)
        if kind is not None:
            return "loader", kind, detail, len(impl), None
    if real_dl:
        kind, detail = drive_dl(geo, bud, cfgs, model, real=True)
        if kind is not None:
            return "real_loader", kind, detail, len(impl), None
    return None, None, None, len(impl), sm


def many_config_sets():
    """9..12 configs of which few are due together (container iteration orders differ from config order beyond 8 entries)."""
    never = (None, 97, None, 1, 1, None)
    out = []
    for due in ((1, 8), (3, 9), (0, 2, 9), (1, 8, 10), (2, 9, 11), (0, 5, 8)):
        n = max(due) + 2
        out.append(tuple(((None, 2, None, 2, 2, None) if i in due else never) for i in range(n)))
        out.append(tuple(((1, None, None, 1 + (i % 2), 3, None) if i in due else never) for i in range(n)))
    return out


def config_sets(b, seed):
    sets = [(c,) for c in ic.config_menu_full()]
    menu = ic.config_menu_small()
    sub = ic.pick(menu, b["pair_menu"], seed)
    sets += [(x, y) for x in sub for y in sub]
    if b["triples"]:
        tsub = ic.pick(menu, b["triples"], seed + 3)
        sets += [(x, y, z) for x in tsub for y in tsub for z in tsub]
    return sets


def task(args):
    geo, tier, seed = args
    b = bounds(tier)
    p = Partial()
    sets = config_sets(b, seed)
    n = 0
    buds = list(ic.budgets(geo)) + [('epochs', 0), ('updates', 0), ('samples', 0)]
    work = [(bud, cfgs) for bud in buds for cfgs in sets]
    if geo[0] in (3, 4) and geo[2] is False:
        work += [(bud, cfgs) for bud in (('updates', 4), ('epochs', 2)) for cfgs in many_config_sets()]
    if geo[0] <= ic.DEEP_N:
        work += [(bud, cfgs) for bud in ic.deep_budgets(geo) for cfgs in sets if len(cfgs) <= 1]
    for bud, cfgs in work:
        if True:
            n += 1
            dl = (n % b["dl_every"] == 0) or bud[1] == 0
            rdl = n % b["real_dl_every"] == 0
            level, kind, detail, ntr, stream = check_one(geo, bud, cfgs, dl=dl, real_dl=rdl)
            if kind is None and cfgs and n % 5 == 0:
                # the same configuration, but the side samplers had another length when the scheduler was built
                for delta in (2, -1):
                    ic.RESIZE[0] = delta
                    try:
                        level, kind, detail, ntr2, _ = check_one(geo, bud, cfgs, dl=False, real_dl=False)
                    finally:
                        ic.RESIZE[0] = 0
                    p.evaluations += 1
                    p.traces += 1
                    p.transitions += ntr2
                    if kind is not None:
                        kind = kind + "|side_sampler_resized_after_construction"
                        break
            p.evaluations += 1
            p.traces += 1
            p.transitions += ntr
            if dl:
                p.count("dataloader_level_drives")
            if rdl:
                p.count("real_get_data_loader_runs")
            if kind is not None:
                culprit = detail.get("culprit") if isinstance(detail, dict) else None
                p.violation(signature(kind, geo, bud, cfgs, level, culprit), dict(geo=geo, bud=bud, cfgs=cfgs),
                            f"{level}:{kind}: {detail}")
            else:
                p.observe((geo, tuple(stream)))
                p.state((geo, bud, len(stream)))
    p.sample(dict(geo=geo, bud=buds[-4], cfgs=sets[len(sets) // 2]))
    return p


def run(run):
    b = bounds(run.tier)
    geos = sorted(ic.geometries(b["maxN"]), key=lambda g: -g[0])
    run.pmap(task, [(g, run.tier, run.seed) for g in geos])
    run.extra.update(bounds=dict(N=f"1..{b['maxN']}", config_sets=len(config_sets(b, run.seed)),
                                 single_configs=len(list(ic.config_menu_full())), **b), geometries=len(geos))
    run.assumptions += [
        "states counted as (geometry, budget, stream length) classes; the model's counter states are reported by C04",
        "dataloader-level drives also re-iterate the same object after an abandoned iteration (after 1 batch, inside the first side pass, half-way)",
        "real get_data_loader(num_workers=0) runs are a sub-lattice; num_workers>=2 is not part of the deciding step",
    ]


def replay(case):
    geo = tuple(case["geo"])
    bud = tuple(case["bud"])
    cfgs = tuple(tuple(c) for c in case["cfgs"])
    level, kind, detail, _, _ = check_one(geo, bud, cfgs, dl=True, real_dl=True)
    return None if kind is None else f"{level}:{kind}: {detail}"
