"""Harness shared by C04/C05/C06: drives the real InterleavedSampler in lock-step with the reference model."""
import itertools
from math import ceil

from ..models import interleaved_ref as ref

MAIN_DLEN_FACTOR = 8


class Log(list):
    pass


class MainSampler:
    """Main sampler whose indices encode the epoch announced via set_epoch (e*N + i)."""

    def __init__(self, N, log):
        self.N = N
        self.data_source = range(N * MAIN_DLEN_FACTOR)
        self.epoch = 0
        self.log = log

    def __len__(self):
        return self.N

    def set_epoch(self, e):
        self.epoch = e
        self.log.append(('E', e))

    def __iter__(self):
        for i in range(self.N):
            yield self.epoch * self.N + i


MainSampler.effective_length = property(lambda self: 3 * self.N)  # what rank-split kappadata samplers expose: the GLOBAL length


class PlainMainSampler:
    """No set_epoch attribute at all (like torch's SequentialSampler); exposes `dataset` instead of data_source."""

    def __init__(self, N, log):
        self.N = N
        self.dataset = range(N * MAIN_DLEN_FACTOR)
        self.log = log

    def __len__(self):
        return self.N

    def __iter__(self):
        return iter(range(self.N))


class SideSampler:
    """Yields slen-1 .. 0; logs start/end of every iteration so side items are recognised by position, not value."""

    def __init__(self, ci, slen, dlen, log):
        self.ci = ci
        self.slen = slen
        self.data_source = range(dlen)
        self.log = log

    def __len__(self):
        return self.slen

    def __iter__(self):
        self.log.append(('SS', self.ci))
        for j in range(self.slen):
            yield self.slen - 1 - j
        self.log.append(('SE', self.ci))


RESIZE = [0]  # != 0: the side samplers are built with slen + RESIZE entries and set to slen after the scheduler was constructed


def build(geo, bud, cfgs, start=None, plain=False):
    from kappadata.samplers.interleaved_sampler import InterleavedSampler, InterleavedSamplerConfig
    N, B, drop_last, dlbs = geo
    log = Log()
    main = (PlainMainSampler if plain else MainSampler)(N, log)
    configs = [
        InterleavedSamplerConfig(
            sampler=SideSampler(ci, max(0, c[3] + RESIZE[0]), c[4], log),
            every_n_epochs=c[0], every_n_updates=c[1], every_n_samples=c[2], batch_size=c[5],
        )
        for ci, c in enumerate(cfgs)
    ]
    kwargs = {bud[0]: bud[1]}
    if start is not None:
        kwargs[start[0]] = start[1]
    s = InterleavedSampler(main_sampler=main, batch_size=B, configs=configs, drop_last=drop_last,
                           drop_last_batch_size=dlbs, **kwargs)
    if RESIZE[0]:
        # a config sampler whose length is changed later (WeightedSampler.size, samples_per_class, a shortened list ...)
        for cfg, c in zip(configs, cfgs):
            cfg.sampler.slen = c[3]
    return s, log


def impl_events(sampler, log, horizon):
    """Step the real generator one transition at a time; returns (events, overrun).
    events use the model's alphabet: ('E', e) | ('M', last, idx) | ('S', c, last, idx)."""
    out = []
    it = iter(sampler)
    inside = None
    pos = 0
    n = 0
    overrun = False
    while True:
        try:
            item = next(it)
        except StopIteration:
            item = None
        # consume log entries produced since the previous step
        while pos < len(log):
            x = log[pos]
            pos += 1
            if x[0] == 'E':
                out.append(x)
            elif x[0] == 'SS':
                inside = x[1]
            elif x[0] == 'SE':
                inside = None
        if item is None:
            break
        flag, idx = item
        flag = bool(flag)
        if inside is None:
            out.append(('M', flag, int(idx)))
        else:
            out.append(('S', inside, flag, int(idx)))
        n += 1
        if n > horizon:
            overrun = True
            break
    return out, overrun


def first_diff(a, b):
    for i, (x, y) in enumerate(zip(a, b)):
        if x != y:
            return i
    return None if len(a) == len(b) else min(len(a), len(b))


def classify(model, impl, overrun):
    """Return None if equal, else a short kind string."""
    if model == impl:
        return None
    k = first_diff(model, impl)
    if k >= len(impl):
        return "ends_early"
    if k >= len(model):
        return "no_termination" if overrun else "ends_late"
    m, x = model[k], impl[k]
    if m[0] != x[0]:
        if m[0] == 'S' and x[0] != 'S':
            return "side_pass_missing"
        if x[0] == 'S' and m[0] != 'S':
            return "side_pass_spurious"
        return "epoch_announce"
    if m[0] == 'E':
        return "epoch_announce"
    if m[0] == 'M':
        return "main_index" if m[2] != x[2] else "main_batch_cut"
    if m[1] != x[1]:
        return "side_order"
    return "side_index" if m[3] != x[3] else "side_batch_cut"


# ------------------------------------------------------------------ configuration spaces

def geometries(maxN, minN=1):
    for N in range(minN, maxN + 1):
        for B in range(1, N + 1):
            yield (N, B, False, None)
            yield (N, B, True, None)
            for k in range(1, N // B + 1):
                yield (N, B, True, k * B)


def budgets(geo):
    N, B = geo[0], geo[1]
    for e in (1, 2, 3):
        yield ('epochs', e)
    for u in range(1, 2 * ceil(N / B) + 2):
        yield ('updates', u)
    for s in range(1, 2 * N + 2):
        yield ('samples', s)


DEEP_N = 4


def deep_budgets(geo):
    """Long runs for small geometries: 5 and 7 epochs, and the update / sample budgets that end inside epoch 5 / 7."""
    N, B, dl = geo[0], geo[1], geo[2]
    upe = (N // B) if dl else ceil(N / B)   # updates per epoch (the harness' main indices encode the epoch: at most 8 epochs)
    spe = upe * B if dl else N              # samples per epoch
    if geo[3] is not None:                  # the epoch is cut to drop_last_batch_size samples
        upe, spe = geo[3] // B, geo[3]
    for e in (5, 7):
        yield ('epochs', e)
        if upe >= 1:
            yield ('updates', (e - 1) * upe + 1)
            yield ('samples', (e - 1) * spe + 1)


INTERVALS = [
    (ene, enu, ens)
    for ene in (None, 1, 2) for enu in (None, 1, 2, 3) for ens in (None, 1, 3, 4, 5)
    if not (ene is None and enu is None and ens is None)
]


def config_menu_full():
    """Every single config of the C05 menu."""
    for iv in INTERVALS:
        for slen in (0, 1, 3):
            for extra in (0, 2):
                for cbs in (None, 1, 2):
                    yield iv + (slen, slen + extra, cbs)


def config_menu_small(seed=0):
    """A reduced menu for config *sets* (pairs/triples): all interval kinds singly, the mixed kinds,
    two sampler shapes. Used as the in-between noise for C04 and as pair members for C05."""
    ivs = [(1, None, None), (2, None, None), (None, 1, None), (None, 3, None), (None, None, 1),
           (None, None, 3), (None, None, 5), (1, 3, None), (2, None, 4), (None, 2, 3), (2, 3, 5)]
    shapes = [(1, 1, None), (3, 5, 2), (3, 3, None)]
    # three passes over the interval kinds with rotating shapes, so that every contiguous sub-menu mixes sampler lengths,
    # data-source lengths and (absent / present) per-config batch sizes - incl. "long sampler without its own batch size"
    return [iv + shapes[(i + k) % 3] for k in range(3) for i, iv in enumerate(ivs)]


def pick(menu, n, seed=0):
    """n menu entries starting at a seed-dependent rotation (the whole menu if n >= len)."""
    if n >= len(menu):
        return list(menu)
    k = seed % len(menu)
    rot = menu[k:] + menu[:k]
    return rot[:n]


def side_max_len(cfgs):
    return sum(c[3] for c in cfgs)
