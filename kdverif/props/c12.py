"""C12 - rank-aware samplers split one global epoch draw evenly and reproducibly (E3 differential W=1 vs W + E1 on the permutation)."""
import itertools

from ..core.explorer import Chooser, explore
from ..core.runner import Partial
from ..core.torch_proxy import TorchProxy

LEVEL = "model_checking"
RULE = ("distributed / class-balanced / weighted samplers (+ random sampler for repeated augmentation): dataset sizes 1..N "
        "(incl. smaller than the world size) x world sizes 1..4 x all ranks x epochs 0..3 x seeds 0..2 x num_repeats 1..3 x "
        "drop_last x shuffle; reference model: the single global draw G is the world-size-1 stream of the same sampler; "
        "the rank streams, interleaved (G_W[k*W+r] = stream_r[k]), must equal G with only a tail dropped or G's own head "
        "wrapped around, every rank must yield len(sampler) entries; G itself must be a permutation / runs of num_repeats; "
        "for sizes <= 4 every answer of the permutation draw is enumerated (TorchProxy) instead of seeds; "
        "process-group environment histories (init(rank, W) / destroy / build-with-defaults, length <= 4, torch.distributed's answers "
        "owned by the harness): a sampler built with default rank / world size equals the one built with the answers current at "
        "that moment; states = (sampler, n, W, global draw), transitions = indices compared")


class DS:
    def __init__(self, classes, container="list"):
        self.classes = list(classes)
        self.container = container  # how the bulk accessor stores the labels (datasets keep them compactly)

    def __len__(self):
        return len(self.classes)

    def getall_class(self):
        if self.container == "list":
            return list(self.classes)
        import numpy as np
        import torch
        kind, dt = self.container.split(":")
        if kind == "numpy":
            return np.array(self.classes, dtype=getattr(np, dt))
        return torch.tensor(self.classes, dtype=getattr(torch, dt))

    def getitem_class(self, i, ctx=None):
        return self.classes[i]

    def getshape_class(self):
        return (max(self.classes) + 1 if self.classes else 1,)

    def getdim_class(self):
        return self.getshape_class()[0]


def make(kind, ds, rank, W, cfg):
    if kind == "distributed":
        from kappadata.samplers.distributed_sampler import DistributedSampler
        return DistributedSampler(ds, num_replicas=W, rank=rank, shuffle=cfg["shuffle"], seed=cfg["seed"],
                                  drop_last=cfg["drop_last"], num_repeats=cfg["num_repeats"])
    if kind == "class_balanced":
        from kappadata.samplers.class_balanced_sampler import ClassBalancedSampler
        return ClassBalancedSampler(ds, shuffle=cfg["shuffle"], samples_per_class=cfg.get("spc"), seed=cfg["seed"], rank=rank,
                                    world_size=W)
    if kind == "weighted":
        import torch
        from kappadata.samplers.weighted_sampler import WeightedSampler
        return WeightedSampler(ds, weights=torch.tensor(cfg["weights"], dtype=torch.float), size=cfg.get("size"),
                               seed=cfg["seed"], rank=rank, world_size=W)
    raise ValueError(kind)


MODULES = {"distributed": "kappadata.samplers.distributed_sampler", "class_balanced": "kappadata.samplers.class_balanced_sampler",
           "weighted": "kappadata.samplers.weighted_sampler"}


HISTORIES = ("fresh", "iterated_before", "other_epoch_before", "iterated_before_set_epoch", "len_before_iter", "set_epoch_twice",
             "deepcopy", "pickle", "abandoned_iteration_before")


def stream(kind, ds, rank, W, cfg, epoch, choices=None, history="fresh"):
    """list(sampler) after set_epoch; with `choices` the module's torch is a TorchProxy replaying those answers.
    history: what happened to this sampler object before the observed iteration (the draw must not depend on it)."""
    import importlib
    mod = importlib.import_module(MODULES[kind])
    s = make(kind, ds, rank, W, cfg)
    if history == "iterated_before_set_epoch":
        list(s)
    if history == "other_epoch_before":
        s.set_epoch(epoch + 1)
        list(s)
    s.set_epoch(epoch)
    if history == "iterated_before":
        list(s)
    if history == "len_before_iter":
        len(s)
        len(s)
    if history == "set_epoch_twice":
        s.set_epoch(epoch)
    if history == "deepcopy":
        import copy
        s = copy.deepcopy(s)
    if history == "pickle":
        import pickle
        try:
            s = pickle.loads(pickle.dumps(s))
        except (pickle.PicklingError, AttributeError, TypeError):
            pass  # harness dataset classes defined at run time may not pickle: then the object is used as it is
    if history == "abandoned_iteration_before":
        it = iter(s)
        next(it, None)
        del it
    if choices is None:
        return list(s), len(s), None
    ch = Chooser(tuple(choices))
    saved = mod.torch
    mod.torch = TorchProxy(ch)
    try:
        out = list(s)
    finally:
        mod.torch = saved
    return out, len(s), ch


def expected_from_global(kind, G1, n, W, cfg):
    """What the interleaved rank streams must be, given the global draw G1 (statement: only a tail dropped / head wrapped)."""
    if kind == "distributed":
        if cfg["drop_last"]:
            per = len(G1) // W
            return G1[:per * W], per
        per = -(-len(G1) // W)
        total = per * W
        out = list(G1)
        while len(out) < total:
            out += G1[:total - len(out)]
        return out, per
    per = len(G1) // W
    return G1[:per * W], per


def check_global(kind, G1, ds, cfg):
    """Validity of the single global draw itself."""
    n = len(ds)
    if kind == "distributed":
        r = cfg["num_repeats"]
        if len(G1) != n:
            return f"global draw has {len(G1)} entries for a dataset of {n}"
        if r == 1:
            if sorted(G1) != list(range(n)):
                return f"global draw {G1} is not a permutation of the dataset"
            if not cfg["shuffle"] and G1 != list(range(n)):
                return f"unshuffled draw {G1} is not sequential"
        else:
            runs = [(k, len(list(g))) for k, g in itertools.groupby(G1)]
            if any(c != r for _, c in runs[:-1]) or (runs and runs[-1][1] > r) or len({k for k, _ in runs}) != len(runs):
                return f"repeated augmentation: {G1} is not made of runs of {r} consecutive slots per drawn sample"
    elif kind == "weighted":
        if len(set(G1)) != len(G1) or any(i < 0 or i >= n for i in G1):
            return f"global draw {G1} repeats or leaves the dataset"
    elif kind == "class_balanced":
        if any(i < 0 or i >= n for i in G1):
            return f"global draw {G1} leaves the dataset"
    return None


def check_config(kind, ds, W, cfg, epochs, p, choices=None):
    sigbase = f"C12:{kind}"
    feats = f"|W={'1' if W == 1 else 'gt_n' if W > len(ds) else 'many'}|repeats={'1' if cfg.get('num_repeats', 1) == 1 else '>1'}" \
            f"|drop_last={cfg.get('drop_last')}"
    case = dict(kind=kind, classes=ds.classes, W=W, cfg=cfg, choices=choices)
    draws = []
    for epoch in epochs:
        try:
            G1, _, _ = stream(kind, ds, 0, 1, cfg, epoch, choices)
        except (AssertionError, RuntimeError):
            p.count("rejected")
            return None
        except Exception as e:
            p.violation(f"{sigbase}:exception:{type(e).__name__}{feats}", dict(case, epoch=epoch), f"{kind} W=1 {cfg}: {e!r}")
            return None
        err = check_global(kind, G1, ds, cfg)
        if err:
            p.violation(f"{sigbase}:global_draw_invalid{feats}", dict(case, epoch=epoch), f"{kind} n={len(ds)} {cfg} epoch {epoch}: {err}")
            return None
        exp, per = expected_from_global(kind, G1, len(ds), W, cfg)
        try:
            res = [stream(kind, ds, r, W, cfg, epoch, choices) for r in range(W)]
        except (AssertionError,):
            p.count("rejected")
            return None
        except Exception as e:
            p.violation(f"{sigbase}:exception:{type(e).__name__}{feats}", dict(case, epoch=epoch),
                        f"{kind} n={len(ds)} W={W} {cfg} epoch {epoch}: {e!r}")
            return None
        p.evaluations += 1
        p.traces += 1
        for r, (st, ln, _) in enumerate(res):
            p.transitions += len(st)
            if len(st) != ln or ln != per:
                p.violation(f"{sigbase}:rank_length_wrong{feats}", dict(case, epoch=epoch, rank=r),
                            f"{kind} n={len(ds)} W={W} {cfg}: rank {r} yields {len(st)} entries, len(sampler)={ln}, expected {per}")
                return None
        GW = [res[k % W][0][k // W] for k in range(per * W)]
        if GW != exp:
            p.violation(f"{sigbase}:ranks_do_not_interleave_into_the_global_draw{feats}", dict(case, epoch=epoch),
                        f"{kind} n={len(ds)} W={W} {cfg} epoch {epoch}: interleaved rank streams {GW}, global draw {G1}, "
                        f"expected {exp}")
            return None
        # same (seed, epoch) reproduces - on a new object and on one object whatever it did before
        if choices is None:
            for hist in HISTORIES:
                again = stream(kind, ds, W - 1, W, cfg, epoch, None, history=hist)[0]
                p.transitions += len(again)
                if again != res[W - 1][0]:
                    p.violation(f"{sigbase}:draw_depends_on_sampler_history|history={hist}", dict(case, epoch=epoch, history=hist),
                                f"{kind} n={len(ds)} W={W} {cfg} epoch {epoch}: rank {W - 1} yields {again} after history "
                                f"'{hist}', a fresh sampler yields {res[W - 1][0]}")
                    break
        p.state((kind, len(ds), W, tuple(G1)))
        draws.append(tuple(G1))
    return draws


def cfgs_for(kind, n, tier):
    out = []
    if kind == "distributed":
        for shuffle, drop_last, r, seed in itertools.product((True, False), (False, True), (1, 2, 3), (0, 1, 2)):
            if not shuffle and (r > 1 or seed > 0):
                continue
            out.append(dict(shuffle=shuffle, drop_last=drop_last, num_repeats=r, seed=seed))
    elif kind == "class_balanced":
        for shuffle, spc, seed in itertools.product((True, False), (None, 1, 2, 3, 4), (0, 1, 2)):
            if not shuffle and seed > 0:
                continue
            out.append(dict(shuffle=shuffle, spc=spc, seed=seed))
    elif kind == "weighted":
        for size, seed in itertools.product((None,) + tuple(range(1, n + 1)), (0, 1, 2)):
            out.append(dict(size=size, seed=seed))
    return out


def layouts(kind, n):
    if kind == "class_balanced":
        # every class present (constructor requirement)
        for C in (2, 3):
            for lay in itertools.product(range(C), repeat=n):
                if set(lay) == set(range(C)):
                    yield lay
    else:
        yield tuple(i % 2 for i in range(n))


def weight_sets(n):
    yield [1.0] * n
    if n >= 2:
        yield [3.0] + [1.0] * (n - 1)
        yield [0.0] + [1.0] * (n - 1)
        yield [1.0, 0.0] * (n // 2) + [3.0] * (n % 2)


def task(args):
    kind, n, tier, part, nparts = args
    p = Partial()
    epochs = (0, 1, 2, 3)
    # world sizes incl. more than twice the dataset size (padding longer than the draw wraps around several times)
    Ws = (1, 2, 3, 4, 7, 9) if kind == "distributed" else (1, 2, 3, 4)
    max_lay = 40 if tier == "quick" else 400
    for li, lay in enumerate(layouts(kind, n)):
        if li >= max_lay:
            break
        ds = DS(lay)
        for cfg in cfgs_for(kind, n, tier)[part::nparts]:
            variants = [cfg]
            if kind == "weighted":
                variants = [dict(cfg, weights=w) for w in weight_sets(n)]
            for c in variants:
                for W in Ws:
                    draws = check_config(kind, ds, W, c, epochs, p)
                    if draws and c.get("shuffle", True) and n >= 6 and len(set(draws)) == 1:
                        p.violation(f"C12:{kind}:set_epoch_does_not_change_the_draw", dict(kind=kind, classes=lay, W=W, cfg=c),
                                    f"{kind} n={n} {c}: epochs 0..3 all give {draws[0]}")
                    for d in draws or []:
                        p.observe((kind, n, d))
                # every answer of the permutation draw (sizes <= 4), replayed identically on every rank
                if n <= 4 and c.get("seed", 0) == 0 and (kind != "distributed" or c["num_repeats"] > 1):
                    def body(ch, c=c):
                        import importlib
                        mod = importlib.import_module(MODULES[kind])
                        s = make(kind, ds, 0, 1, c)
                        saved = mod.torch
                        mod.torch = TorchProxy(ch)
                        try:
                            return list(s)
                        except (AssertionError, RuntimeError):
                            return None
                        finally:
                            mod.torch = saved
                    n_exec = 0
                    for ch, res in explore(body, cap=300):
                        if ch is None:
                            p.count("permutation_enumeration_capped")
                            break
                        if res is None:
                            break
                        n_exec += 1
                        for W in (2, 3):
                            check_config(kind, ds, W, c, (0,), p, choices=ch.choices)
                    p.count("permutation_answer_sequences", n_exec)
    p.sample(dict(kind=kind, n=n, example_cfg=cfgs_for(kind, n, tier)[0]))
    return p


def random_sampler_task(_):
    """Repeat clause on the single-process RandomSampler: every drawn sample occupies num_repeats consecutive slots."""
    import torch
    from kappadata.samplers.random_sampler import RandomSampler
    p = Partial()
    for n in list(range(1, 9)) + [31, 32, 33, 50, 64, 65, 100]:
        for r in ((1, 2, 3) if n < 9 else (2, 3, 5, 7)):
            for repl in (False, True):
                for seed in (0, 1, 2):
                    ds = DS([0] * n)
                    a = list(RandomSampler(ds, replacement=repl, num_repeats=r, generator=torch.Generator().manual_seed(seed)))
                    b = list(RandomSampler(ds, replacement=repl, num_repeats=r, generator=torch.Generator().manual_seed(seed)))
                    p.evaluations += 1
                    p.transitions += len(a)
                    case = dict(random_sampler=True, n=n, num_repeats=r, replacement=repl, seed=seed)
                    runs = [(k, len(list(g))) for k, g in itertools.groupby(a)]
                    bad = len(a) != n or any(i < 0 or i >= n for i in a) or a != b
                    if r > 1 and not repl:
                        bad = bad or any(c != r for _, c in runs[:-1]) or len({k for k, _ in runs}) != len(runs)
                    if r > 1 and repl:
                        # with replacement equal neighbours may merge: runs are multiples of r except the last
                        bad = bad or any(c % r != 0 for _, c in runs[:-1])
                    if r == 1 and not repl:
                        bad = bad or sorted(a) != list(range(n))
                    if bad:
                        p.violation(f"C12:random_sampler:repeats_not_consecutive_or_not_reproducible|repeats={'1' if r == 1 else '>1'}",
                                    case, f"RandomSampler n={n} num_repeats={r} replacement={repl} seed={seed}: {a} / {b}")
                    p.observe(("random", n, r, repl, tuple(a)))
    return p


class FakeDist:
    """Owns what torch.distributed answers (the process-group environment of this process)."""

    def __init__(self):
        self.state = None  # None: no process group; (rank, world_size) once initialised

    def install(self):
        import torch.distributed as dist
        self.saved = {k: getattr(dist, k) for k in ("is_available", "is_initialized", "get_rank", "get_world_size")}
        dist.is_available = lambda: True
        dist.is_initialized = lambda: self.state is not None
        dist.get_rank = lambda *a, **k: self.state[0]
        dist.get_world_size = lambda *a, **k: self.state[1]

    def uninstall(self):
        import torch.distributed as dist
        for k, v in self.saved.items():
            setattr(dist, k, v)


def env_task(_):
    """Process-group histories: events are 'init(rank, W)', 'destroy' and 'build a sampler with default rank / world size';
    every sampler built with defaults must behave like the one built with the explicit (rank, world size) the environment
    answers at that moment - whatever was asked or built earlier in the process."""
    import torch
    from kappadata.samplers.semi_sampler import SemiSampler
    from kappadata.samplers.class_balanced_sampler import ClassBalancedSampler
    from kappadata.samplers.weighted_sampler import WeightedSampler
    p = Partial()
    ds = DS([0, 1, 0, 1, 2, 2, 0, 1])
    semi_ds = DS([0, -1, 1, -1, -1, 0, -1, 1])
    builders = {
        "class_balanced": lambda **kw: ClassBalancedSampler(ds, shuffle=True, seed=3, **kw),
        "weighted": lambda **kw: WeightedSampler(ds, weights=torch.tensor([1.0, 2.0, 1.0, 3.0, 1.0, 1.0, 2.0, 1.0]), seed=3, **kw),
        "semi": lambda **kw: SemiSampler(semi_ds, num_labeled=1, num_unlabeled=1, seed=3, **kw),
    }
    events = ["build", ("init", 0, 2), ("init", 1, 2), ("init", 2, 3), "destroy"]
    fake = FakeDist()
    fake.install()
    try:
        for name, build in builders.items():
            for L in (1, 2, 3, 4):
                for hist in itertools.product(events, repeat=L):
                    if hist[-1] != "build":
                        continue
                    fake.state = None
                    ok = True
                    for k, ev in enumerate(hist):
                        if ev == "destroy":
                            fake.state = None
                        elif ev != "build":
                            fake.state = (ev[1], ev[2])
                        else:
                            rank, W = fake.state if fake.state is not None else (0, 1)
                            p.evaluations += 1
                            p.transitions += 1
                            case = dict(env=True, sampler=name, history=[list(e) if isinstance(e, tuple) else e for e in hist[:k + 1]])
                            try:
                                s = build()
                                got = (list(s), len(s))
                                # reference: same process-group answers, explicit arguments
                                r = build(rank=rank, world_size=W)
                                exp = (list(r), len(r))
                            except Exception as e:
                                p.violation(f"C12:env:{name}:exception:{type(e).__name__}", case, f"{name} after {hist[:k + 1]}: {e!r}")
                                ok = False
                                break
                            # every way of giving only one of the two arguments: the other one comes from the process group
                            try:
                                for W2 in (2, 3):
                                    half = build(world_size=W2)
                                    ref2 = build(rank=rank if rank < W2 else 0, world_size=W2)
                                    if rank < W2 and (list(half), len(half)) != (list(ref2), len(ref2)):
                                        p.violation(f"C12:env:{name}:explicit_world_size_without_rank_not_honoured", case,
                                                    f"{name}(world_size={W2}) after {hist[:k + 1]} (process group: rank {rank} of {W}): "
                                                    f"rank/world_size {getattr(half, 'rank', None)}/{getattr(half, 'world_size', None)}, "
                                                    f"{len(half)} entries; {name}(rank={rank}, world_size={W2}) has {len(ref2)}")
                                        ok = False
                                        break
                                if rank > 0:
                                    half = build(rank=rank)
                                    if (list(half), len(half)) != exp:
                                        p.violation(f"C12:env:{name}:explicit_rank_without_world_size_not_honoured", case,
                                                    f"{name}(rank={rank}) after {hist[:k + 1]}: {list(half)} vs {exp}")
                                        ok = False
                            except Exception as e:
                                p.violation(f"C12:env:{name}:exception:{type(e).__name__}", case, f"{name} with one explicit argument: {e!r}")
                                ok = False
                            if not ok:
                                break
                            if (getattr(s, "rank", rank), getattr(s, "world_size", W)) != (rank, W) or got != exp:
                                p.violation(f"C12:env:{name}:default_rank_or_world_size_not_from_the_current_process_group", case,
                                            f"{name} built with defaults after {hist[:k + 1]}: rank/world_size "
                                            f"{getattr(s, 'rank', None)}/{getattr(s, 'world_size', None)}, stream {got}; the process "
                                            f"group says rank {rank} of {W}: {exp}")
                                ok = False
                                break
                    if ok:
                        p.state((name, tuple(map(str, hist))))
                        p.traces += 1
    finally:
        fake.uninstall()
    p.observe(("env_histories", len(events)))
    return p


CROSS_CODE = r"""
import json, os, sys
sys.path.insert(0, os.environ["KDVERIF_REPO"])
import torch
from kappadata.samplers.weighted_sampler import WeightedSampler
from kappadata.samplers.class_balanced_sampler import ClassBalancedSampler
from kappadata.samplers.semi_sampler import SemiSampler
from kappadata.samplers.distributed_sampler import DistributedSampler
class DS:
    def __init__(self, c): self.c = c
    def __len__(self): return len(self.c)
    def getall_class(self): return list(self.c)
    def getitem_class(self, i, ctx=None): return self.c[i]
    def getshape_class(self): return (3,)
    def getdim_class(self): return 3
ds, semi = DS([0, 1, 0, 1, 2, 2, 0, 1]), DS([0, -1, 1, -1, -1, 0, -1, 1])
out = {}
for seed in (0, 5):
    for epoch in (0, 3):
        for r in range(2):
            def put(name, s):
                s.set_epoch(epoch)
                out[f"{name}/{seed}/{epoch}/{r}"] = [int(i) for i in s]
            put("weighted", WeightedSampler(ds, weights=torch.tensor([1., 2., 1., 3., 1., 1., 2., 1.]), seed=seed, rank=r, world_size=2))
            put("class_balanced", ClassBalancedSampler(ds, shuffle=True, seed=seed, rank=r, world_size=2))
            put("semi", SemiSampler(semi, num_labeled=1, num_unlabeled=1, seed=seed, rank=r, world_size=2))
            put("distributed", DistributedSampler(ds, num_replicas=2, rank=r, shuffle=True, seed=seed))
print("STREAMS " + json.dumps(out, sort_keys=True))
"""


def cross_interpreter_task(_):
    """Ranks are separate interpreter processes: the draw for (seed, epoch) must be the same in every interpreter, whatever
    its string-hash randomisation (PYTHONHASHSEED) - otherwise the ranks do not split ONE global draw."""
    import json
    import os
    import subprocess
    import sys
    from ..core import env
    p = Partial()
    outs = []
    procs = [subprocess.Popen([sys.executable, "-c", CROSS_CODE], stdout=subprocess.PIPE, stderr=subprocess.PIPE, text=True,
                              env=dict(os.environ, PYTHONHASHSEED=hs, KDVERIF_REPO=os.environ.get("KDVERIF_REPO", "/repo"), OMP_NUM_THREADS="1"))
             for hs in ("1", "2", "12345")]
    for pr in procs:
        o, e = pr.communicate(timeout=600)
        line = [l for l in o.splitlines() if l.startswith("STREAMS ")]
        if pr.returncode != 0 or not line:
            p.violation("C12:cross_interpreter:exception", dict(cross_interpreter=True), f"sampler script failed: {e[-400:]}")
            return p
        outs.append(json.loads(line[0][8:]))
    p.evaluations += len(outs)
    for k in sorted(outs[0]):
        p.transitions += 1
        if any(o[k] != outs[0][k] for o in outs[1:]):
            name = k.split("/")[0]
            p.violation(f"C12:cross_interpreter:{name}:draw_differs_between_interpreter_processes", dict(cross_interpreter=True, key=k),
                        f"{k} (sampler/seed/epoch/rank): {[o[k] for o in outs]} in three interpreters with different PYTHONHASHSEED")
            break
    p.observe(("cross_interpreter", len(outs[0])))
    return p


def run(run):
    N = 6 if run.tier == "quick" else 8
    tasks = [(kind, n, run.tier, part, 6) for kind in ("distributed", "class_balanced", "weighted") for n in range(1, N + 1)
             for part in range(6)]
    tasks.sort(key=lambda t: -t[1])
    run.pmap(task, tasks)
    run.pmap(random_sampler_task, [0])
    run.pmap(env_task, [0])
    run.pmap(cross_interpreter_task, [0])
    run.exhaustive = run.counters.get("permutation_enumeration_capped", 0) == 0
    run.extra.update(bounds=dict(n=f"1..{N}", world_sizes="1..4 (distributed: also 7, 9)", epochs="0..3", seeds="0..2", num_repeats="1..3",
                                 permutation_answers="all for n<=4 (cap 300 answer sequences per configuration)"))
    run.assumptions += [
        "the world-size-1 stream of the same sampler is taken as the single global draw (its own validity is checked separately)",
        "AssertionError / RuntimeError from a constructor or from torch.multinomial (not enough non-zero weights) is an explicit rejection",
        "class-balanced sampler: every class present (constructor requirement)",
    ]


def replay(case):
    p = Partial()
    if case.get("cross_interpreter"):
        p = cross_interpreter_task(0)
    elif case.get("env"):
        p = env_task(0)
    elif case.get("random_sampler"):
        p = random_sampler_task(0)
    else:
        ds = DS(case["classes"])
        check_config(case["kind"], ds, case["W"], case["cfg"], (0, 1, 2, 3) if not case.get("choices") else (0,), p,
                     choices=case.get("choices"))
    return None if not p.violations else "; ".join(m for _, m in list(p.violations.values())[:3])
