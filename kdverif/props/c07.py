"""C07 - an injected seed fully determines an augmentation, and nothing else does (E2 over operation histories x catalogue)."""
import hashlib
import random

from ..core.runner import Partial
from . import transform_catalogue as cat

LEVEL = "model_checking"
RULE = ("explicit enumeration of operation histories construct(g) . call^{0..2} . [perturb_global] . set_rng(seed s) . call^{3} . "
        "set_rng(seed s) . call^{3} over g in 2 global RNG states, s in 3 seeds, for every catalogued stochastic transform "
        "(found by walking the transform packages) and compositions (compose / random-apply / patchwise / scheduled, nested) "
        "of 15 shape-preserving leaves; state = (spec, seed, inputs since injection); oracle: the observation (outputs + "
        "recorded ctx) reached for a state is the same along every history reaching it, and the global NumPy/Torch/Python "
        "RNG states are bit-identical before and after every post-injection call; transitions = transform calls")

SEEDS = (0, 1, 7)
N_CALLS = 3


def dig(obj, h=None):
    import torch
    import numpy as np
    top = h is None
    if top:
        h = hashlib.blake2b(digest_size=8)
    if torch.is_tensor(obj):
        h.update(b"T" + str(tuple(obj.shape)).encode() + str(obj.dtype).encode() + obj.detach().contiguous().numpy().tobytes())
    elif isinstance(obj, np.ndarray):
        h.update(b"N" + str(obj.shape).encode() + obj.tobytes())
    elif hasattr(obj, "tobytes") and hasattr(obj, "size") and hasattr(obj, "mode"):
        h.update(b"P" + str(obj.size).encode() + obj.mode.encode() + obj.tobytes())
    elif isinstance(obj, dict):
        for k in sorted(obj, key=str):
            h.update(b"K" + str(k).encode())
            dig(obj[k], h)
    elif isinstance(obj, (list, tuple)):
        h.update(b"L%d" % len(obj))
        for o in obj:
            dig(o, h)
    else:
        h.update(b"R" + repr(obj).encode())
    return int.from_bytes(h.digest(), "big") if top else None


def set_global(g):
    import numpy as np
    import torch
    np.random.seed(100 + 17 * g)
    torch.manual_seed(200 + 17 * g)
    random.seed(300 + 17 * g)


def global_state():
    import numpy as np
    import torch
    st = np.random.get_state()
    return (st[0], st[1].tobytes(), st[2], st[3], st[4], torch.get_rng_state().numpy().tobytes(), repr(random.getstate()))


PREKIND = [None]  # input kind of the calls made before the seed is injected (None: the same kind as afterwards)


def run_history(spec, kind, g, pre, perturb, seed):
    """-> ('ok', [digest per call], [digest per replayed call], consumed: bool) | ('exc', where, repr)"""
    import numpy as np
    set_global(g)
    try:
        t = cat.build(spec)
    except Exception as e:
        return ("exc", "construct", f"{type(e).__name__}: {e}")
    try:
        for j in range(pre):
            t(cat.inputs(PREKIND[0] or kind, 50 + j), ctx={})
    except Exception as e:
        return ("exc", "call_before_injection", f"{type(e).__name__}: {e}")
    if perturb:
        set_global(1 - g)
    outs = []
    consumed = False
    for rep in range(2):
        try:
            t.set_rng(np.random.default_rng(seed))
        except Exception as e:
            return ("exc", "set_rng", f"{type(e).__name__}: {e}")
        cur = []
        for j in range(N_CALLS):
            x = cat.inputs(kind, j)
            ctx = {}
            before = global_state()
            try:
                y = t(x, ctx=ctx)
            except Exception as e:
                return ("exc", "call_after_injection", f"{type(e).__name__}: {e}")
            if global_state() != before:
                consumed = True
            cur.append(dig((y, ctx)))
        outs.append(cur)
    return ("ok", outs[0], outs[1], consumed)


def run_with_sibling(spec, kind, seed, sibling_seed, order):
    """Two live instances of one spec. a gets seed, b gets sibling_seed (another generator object), then calls interleave.
    Returns the digests of a's N_CALLS outputs (or an ('exc', ...) tuple)."""
    import numpy as np
    set_global(0)
    try:
        a, b = cat.build(spec), cat.build(spec)
        a.set_rng(np.random.default_rng(seed))
        b.set_rng(np.random.default_rng(sibling_seed))
        out = []
        if order == "b_first":
            for j in range(N_CALLS):
                b(cat.inputs(kind, j), ctx={})
        for j in range(N_CALLS):
            if order == "alternate":
                b(cat.inputs(kind, j), ctx={})
            ctx = {}
            y = a(cat.inputs(kind, j), ctx=ctx)
            out.append(dig((y, ctx)))
        return ("ok", out)
    except Exception as e:
        return ("exc", f"{type(e).__name__}: {e}")


def histories():
    for g in (0, 1):
        for pre in (0, 1, 2):
            for perturb in (False, True):
                yield g, pre, perturb


def check_spec(spec, p):
    name = cat.spec_classes(spec)
    for kind in cat.spec_inputs(spec):
        for seed in SEEDS:
            table = {}   # state (calls since injection) -> observation digest, must be unique over histories
            first = None
            kinds = cat.spec_inputs(spec)
            hist = [(g, pre, perturb, None) for g, pre, perturb in histories()]
            # the calls before the injection may have seen inputs of ANOTHER size / mode than the calls afterwards
            for other in kinds:
                if other != kind and other.startswith("PIL") == kind.startswith("PIL"):
                    hist += [(0, 1, False, other), (1, 2, True, other)]
            for g, pre, perturb, prekind in hist:
                PREKIND[0] = prekind
                try:
                    r = run_history(spec, kind, g, pre, perturb, seed)
                finally:
                    PREKIND[0] = None
                p.evaluations += 1
                case = dict(spec=spec, input=kind, seed=seed, g=g, pre=pre, perturb=perturb, prekind=prekind)
                if r[0] == "exc" and r[1] == "call_before_injection" and prekind is not None:
                    continue  # the other input kind is not accepted by this spec at all
                if r[0] == "exc" and r[1] in ("call_before_injection", "call_after_injection"):
                    # a call that raises (in-place op on an expanded tensor, crop larger than a patch ...) is not a
                    # determinism question; such specs are counted and left to the properties that own the behaviour
                    p.count("spec_raises_on_call")
                    break
                if r[0] == "exc":
                    p.violation(f"C07:exception_at_{r[1]}:{r[2].split(':')[0]}|{name}", case,
                                f"{cat.spec_name(spec)} on {kind}: {r[1]}: {r[2]}")
                    break
                _, a, b, consumed = r
                p.traces += 1
                p.transitions += pre + 2 * N_CALLS
                if consumed:
                    p.violation(f"C07:global_rng_consumed_after_injection|{name}", case,
                                f"{cat.spec_name(spec)} on {kind}: a call after set_rng changed the global NumPy/Torch/Python RNG state")
                if a != b:
                    p.violation(f"C07:reinjection_does_not_replay|{name}", case,
                                f"{cat.spec_name(spec)} on {kind}: set_rng(seed={seed}) twice on one instance gives different "
                                f"sequences (first differing call {[i for i in range(N_CALLS) if a[i] != b[i]][0]})")
                for k in range(N_CALLS):
                    key = tuple(a[:k + 1])
                    st = (seed, k)
                    if st in table and table[st] != key:
                        p.violation(f"C07:depends_on_history_or_global_state|{name}", dict(case, reference=first),
                                    f"{cat.spec_name(spec)} on {kind}: seed {seed}, call {k}: observation differs between history "
                                    f"{first} and {dict(g=g, pre=pre, perturb=perturb)}")
                        break
                    table.setdefault(st, key)
                    p.state((name, kind, seed, k, key[-1]))
                if first is None:
                    first = dict(g=g, pre=pre, perturb=perturb)
            # a second live instance of the same spec must not matter (no state shared between instances)
            if (0 in [k for (sd, k) in table if sd == seed]) and spec[0] in ("leaf", "compose", "random_apply"):
                ref = [table[(seed, k)][-1] for k in range(N_CALLS) if (seed, k) in table]
                for sib, order in ((seed, "b_first"), (seed + 100, "alternate"), (seed + 100, "b_first")):
                    r = run_with_sibling(spec, kind, seed, sib, order)
                    p.evaluations += 1
                    if r[0] == "ok" and len(ref) == N_CALLS and r[1] != ref:
                        p.violation(f"C07:depends_on_a_sibling_instance|{name}", dict(spec=spec, input=kind, seed=seed, sibling_seed=sib, order=order),
                                    f"{cat.spec_name(spec)} on {kind}: instance a (seed {seed}) gives other outputs when a second instance "
                                    f"of the same transform is seeded with {sib} and used ({order})")
                        break
                    p.transitions += 2 * N_CALLS
            # different seeds should not all coincide (vacuity guard is the distinct counter)
            for st, key in table.items():
                p.observe((name, kind, st, key[-1]))


def task(specs):
    p = Partial()
    for spec in specs:
        check_spec(spec, p)
    p.sample(dict(spec=cat.spec_name(specs[0]), histories=[dict(g=g, pre=a, perturb=b) for g, a, b in list(histories())[:3]]))
    return p


def run(run):
    classes, unimportable = cat.discover()
    from kappadata.transforms.base.kd_stochastic_transform import KDStochasticTransform
    from kappadata.transforms.base.kd_compose_transform import KDComposeTransform
    stochastic = sorted(n for n, c in classes.items()
                        if issubclass(c, (KDStochasticTransform, KDComposeTransform)) and n not in cat.STRUCTURAL)
    uncovered = [n for n in stochastic if n not in cat.LEAVES]
    specs = cat.leaf_specs() + cat.composition_specs(2 if run.tier == "quick" else 3)
    if run.tier == "quick":
        # quick: all leaves, all single combinators, every 3rd nested composition (rotated by VERIF_SEED)
        lv = [s for s in specs if s[0] == "leaf"]
        d1 = [s for s in specs if s[0] != "leaf" and all(x[0] == "leaf" for x in s[1:] if isinstance(x, tuple))]
        rest = [s for s in specs if s not in lv and s not in d1]
        specs = lv + d1 + rest[run.seed % 3::3]
    chunk = 4
    run.pmap(task, [specs[i:i + chunk] for i in range(0, len(specs), chunk)])
    run.extra.update(specs=len(specs), catalogued_leaf_classes=len(cat.LEAVES), stochastic_classes_found=len(stochastic),
                     uncovered_classes=uncovered, unimportable_modules=unimportable,
                     bounds=dict(seeds=list(SEEDS), global_states=2, calls_before_injection="0..2", calls_after_injection=N_CALLS,
                                 reinjections=1, composition_depth=2 if run.tier == "quick" else 3))
    run.assumptions += [
        "inputs are fresh objects per call (several transforms work in place)",
        "torchvision members that draw from the global torch RNG are not 'seeded transforms' (none is used in the catalogue)",
        "modules that cannot be imported at all are listed as unimportable_modules, not checked",
    ]


def _t(x):
    return tuple(_t(i) for i in x) if isinstance(x, list) else x


def replay(case):
    p = Partial()
    check_spec(_t(case["spec"]), p)
    return None if not p.violations else "; ".join(m for _, m in list(p.violations.values())[:3])
