"""C10 - batch mixup/cutmix mixes image and label with the same partner and weight (E1 with ChoiceRng)."""
import itertools

from ..core.choice_rng import ChoiceRng
from ..core.explorer import NOT_REPRODUCIBLE, explore
from ..core.runner import Partial

LEVEL = "exploration"
RULE = ("batch sizes 1..4 x image shapes x label forms (one-hot, binary scalar) x modes x every constructor combination "
        "(apply/lamb/shuffle modes x mixup-only/cutmix-only/both with two probability splits) x return_ctx, also as the second "
        "batch on a collator object that already mixed a batch of another size; the collator's "
        "generator is replaced by ChoiceRng: every answer of every draw (unit draws around the thresholds, beta values, "
        "full-range box centres, all permutations) is enumerated - full product where small, otherwise all executions with "
        "<= d non-default answers; partner and weight are decoded from id-coded pixels and one-hot labels; "
        "distinct = distinct decoded (partner, weight, kind) batches")

UNIT = (0.0, 0.19, 0.21, 0.49, 0.51, 0.999)
BETA = (0.5, 0.02, 0.25, 0.98)
TOL = 2e-6


def configs(tier):
    kinds = {
        "mixup": dict(mixup_p=1.0, mixup_alpha=0.8),
        "cutmix": dict(cutmix_p=1.0, cutmix_alpha=1.0),
        "both55": dict(mixup_p=0.5, cutmix_p=0.5, mixup_alpha=0.8, cutmix_alpha=1.0),
        "both28": dict(mixup_p=0.2, cutmix_p=0.8, mixup_alpha=0.8, cutmix_alpha=1.0),
    }
    shapes = [(2, 2), (6, 5)] if tier == "quick" else [(2, 2), (6, 5), (3, 4), (1, 5), (5, 8)]
    out = []
    for B in (1, 2, 3, 4):
        for hw in shapes:
            for kind, kw in kinds.items():
                for am, lm, sm in itertools.product(("batch", "sample"), ("batch", "sample"), ("roll", "flip", "random")):
                    for mode in ("x class", "class x", "index x class", "x class x", "x x class"):
                        for rc in (False, True):
                            for label in (("onehot", "binary", "onehot_int64", "onehot_float64") if B == 2 else
                                          (("onehot", "onehot_int64") if hw == shapes[0] else ("onehot",))):
                                if mode != "x class" and (hw != shapes[0] or rc):
                                    continue  # item order / extra items do not interact with the image shape
                                out.append(dict(B=B, hw=hw, kind=kind, kw=kw, apply_mode=am, lamb_mode=lm,
                                                shuffle_mode=sm, mode=mode, return_ctx=rc, label=label))
                                if B in (2, 3) and hw == shapes[0] and label == "onehot" and mode == "x class":
                                    out.append(dict(out[-1], prior=4 if B == 2 else 2))
    return out


def make_batch(cfg):
    import torch
    B, (H, W) = cfg["B"], cfg["hw"]
    samples = []
    for i in range(B):
        x = torch.zeros(B, H, W)
        x[i] = 1.0
        if cfg["label"] == "binary":
            y = torch.tensor(float(i))
        else:
            y = torch.zeros(B)
            y[i] = 1.0
            if cfg["label"] == "onehot_int64":
                y = y.long()
            elif cfg["label"] == "onehot_float64":
                y = y.double()
        items = {"x": x, "class": y, "index": 10 + i}
        s = tuple(items[m] for m in cfg["mode"].split(" "))
        if len(s) == 1:
            s = s[0]
        if cfg["return_ctx"]:
            s = (s, {"pre": float(i)})
        samples.append(s)
    return samples


def decode_image(xi, i):
    """-> (kind, partner, weight) or raises ValueError(description)."""
    import torch
    C, H, W = xi.shape
    flat = xi.reshape(C, H * W).t()  # (pixels, C)
    first = flat[0]
    if bool(torch.all((flat - first).abs() < 1e-6)):
        v = first
        sup = [c for c in range(C) if abs(float(v[c])) > 1e-7]
        if any(float(v[c]) < -1e-7 for c in range(C)) or abs(float(v.sum()) - 1.0) > 1e-5:
            raise ValueError(f"pixel vector {v.tolist()} is not a convex combination")
        others = [c for c in sup if c != i]
        if len(others) > 1:
            raise ValueError(f"more than one partner in pixel vector {v.tolist()}")
        if not others:
            return ("uniform", None, 1.0)
        return ("uniform", others[0], float(v[i]))
    # cutmix: every pixel is e_i or e_p
    part = None
    mask = torch.zeros(H * W, dtype=torch.bool)
    for k in range(H * W):
        v = flat[k]
        sup = [c for c in range(C) if abs(float(v[c])) > 1e-7]
        if len(sup) != 1 or abs(float(v[sup[0]]) - 1.0) > 1e-6:
            raise ValueError(f"pixel {k} is neither the sample nor a pasted partner: {v.tolist()}")
        if sup[0] != i:
            if part is None:
                part = sup[0]
            elif part != sup[0]:
                raise ValueError("pixels pasted from two different partners")
            mask[k] = True
    m = mask.view(H, W)
    rows = [r for r in range(H) if bool(m[r].any())]
    cols = [c for c in range(W) if bool(m[:, c].any())]
    rect = torch.zeros(H, W, dtype=torch.bool)
    rect[rows[0]:rows[-1] + 1, cols[0]:cols[-1] + 1] = True
    if not bool(torch.equal(rect, m)):
        raise ValueError("pasted region is not one rectangle")
    return ("box", part, 1.0 - float(m.sum()) / (H * W))


def decode_label(yi, i, cfg):
    if cfg["label"] == "binary":
        v = float(yi)
        if v < -1e-7 or v > 1 + 1e-7:
            raise ValueError(f"binary label {v} out of [0,1]")
        w = v if i == 1 else 1.0 - v
        return (1 - i if w < 1 - 1e-7 else None, w)
    yi = yi.double()
    C = yi.shape[0]
    if any(float(yi[c]) < -1e-7 for c in range(C)) or abs(float(yi.sum()) - 1.0) > 1e-5:
        raise ValueError(f"label row {yi.tolist()} is not non-negative with sum 1")
    others = [c for c in range(C) if c != i and abs(float(yi[c])) > 1e-7]
    if len(others) > 1:
        raise ValueError(f"label row {yi.tolist()} mixes more than one partner")
    if not others:
        return (None, 1.0)
    return (others[0], float(yi[i]))


def run_one(cfg, chooser):
    """Execute the collator once under the chooser; return (failure kind, message) or (None, observation)."""
    import torch
    from kappadata.collators.kd_mix_collator import KDMixCollator
    try:
        col = KDMixCollator(apply_mode=cfg["apply_mode"], lamb_mode=cfg["lamb_mode"], shuffle_mode=cfg["shuffle_mode"],
                            dataset_mode=cfg["mode"], return_ctx=cfg["return_ctx"], **cfg["kw"])
    except (AssertionError, NotImplementedError):
        return "rejected", None
    if cfg.get("prior"):
        # the collator object already served a batch of another size (real seeded generator): nothing may be carried over
        import numpy as np
        col.set_rng(np.random.default_rng(3))
        try:
            col(make_batch(dict(cfg, B=cfg["prior"])))
        except Exception:
            pass
    col.set_rng(ChoiceRng(chooser, unit=UNIT, beta=BETA, int_full=8))
    batch = make_batch(cfg)
    try:
        out = col(batch)
    except AssertionError as e:
        if cfg["shuffle_mode"] == "flip" and cfg["B"] % 2 == 1 and cfg["B"] > 1:
            return "rejected", None
        return "exception:AssertionError", repr(e)
    except Exception as e:
        return f"exception:{type(e).__name__}", repr(e)
    ctx = None
    if cfg["return_ctx"]:
        if not (isinstance(out, tuple) and len(out) == 2 and isinstance(out[1], dict)):
            return "ctx_not_returned", repr(type(out))
        out, ctx = out
        if "pre" not in ctx or ctx["pre"].tolist() != [float(i) for i in range(cfg["B"])]:
            return "per_sample_ctx_lost", repr(ctx.get("pre"))
    items = cfg["mode"].split(" ")
    if len(out) != len(items):
        return "layout_changed", repr(len(out))
    got = {}
    B = cfg["B"]
    for it, v in zip(items, out):
        if it not in got:
            got[it] = v  # the first entry of a repeated item is the one the collator works on
        elif it == "x":
            # a second view of the image in the mode: passes through untouched
            ref = torch.stack([torch.zeros(B, *cfg["hw"]).index_fill_(0, torch.tensor(i), 1.0) for i in range(B)])
            if tuple(v.shape) != tuple(ref.shape) or not torch.equal(v, ref):
                return "second_view_of_the_image_changed", "the second 'x' entry of the mode is not the plain collated batch any more"
    if "index" in got and got["index"].tolist() != [10 + i for i in range(B)]:
        return "other_item_changed", repr(got["index"])
    x, y = got["x"], got["class"]
    if tuple(x.shape) != (B, B) + tuple(cfg["hw"]):
        return "image_shape_changed", repr(tuple(x.shape))
    obs = []
    partners = []
    for i in range(B):
        try:
            kind, p, w = decode_image(x[i], i)
        except ValueError as e:
            return "image_malformed", f"sample {i}: {e}"
        try:
            p2, w2 = decode_label(y[i], i, cfg)
        except ValueError as e:
            return "label_malformed", f"sample {i}: {e}"
        if p is not None and p2 is not None and p != p2:
            return "partner_differs_between_image_and_label", f"sample {i}: image partner {p}, label partner {p2}"
        if abs(w - w2) > TOL and not (p is None and p2 is None):
            return "weight_differs_between_image_and_label", f"sample {i}: image weight {w:.6f} ({kind}), label weight {w2:.6f}"
        if (p is None) != (p2 is None) and abs(w - w2) > TOL:
            return "weight_differs_between_image_and_label", f"sample {i}: image ({p},{w}) label ({p2},{w2})"
        pp = p if p is not None else p2
        if pp is not None:
            exp = {"roll": (i - 1) % B, "flip": B - 1 - i}.get(cfg["shuffle_mode"])
            if exp is not None and pp != exp:
                return "partner_not_as_shuffle_mode", f"sample {i}: partner {pp}, {cfg['shuffle_mode']} requires {exp}"
            partners.append(pp)
            if ctx is not None:
                lam = ctx["lambda"].reshape(-1)
                li = float(lam[i] if lam.numel() == B and cfg["lamb_mode"] == "sample" else lam[0])
                if abs(li - w2) > TOL:
                    return "ctx_weight_not_weight_used", f"sample {i}: ctx lambda {li:.6f}, used {w2:.6f}"
        obs.append((kind, pp, round(w2, 4)))
    if cfg["shuffle_mode"] == "random" and len(set(partners)) != len(partners):
        return "partners_not_a_permutation", repr(partners)
    if not any(chooser.choices):
        # the batch handed out must stay what it is when the collator serves the next batch of the same shape (the caller
        # may still hold it: list(loader), gradient accumulation, prefetching)
        import numpy as np
        keep = [t.clone() for t in out if torch.is_tensor(t)]
        keep_ctx = {k: v.clone() for k, v in (ctx or {}).items() if torch.is_tensor(v)}
        col.set_rng(np.random.default_rng(11))
        try:
            col(make_batch(cfg))
        except Exception as e:
            return f"second_batch_exception:{type(e).__name__}", repr(e)
        now = [t for t in out if torch.is_tensor(t)]
        if any(not torch.equal(a, b) for a, b in zip(keep, now)) or \
                any(not torch.equal(v, ctx[k]) for k, v in keep_ctx.items()):
            return "returned_batch_changed_by_next_call", "a tensor of the returned batch / ctx was overwritten by the next collate call"
    return None, tuple(obs)


def cfg_key(cfg):
    return {k: v for k, v in cfg.items() if k != "kw"}


def signature(kind, cfg):
    return (f"C10:{kind}|mix={cfg['kind'][:4] if cfg['kind'].startswith('both') else cfg['kind']}|lamb_mode={cfg['lamb_mode']}"
            f"|shuffle={cfg['shuffle_mode']}|label={cfg['label']}{'|after_earlier_batch' if cfg.get('prior') else ''}")


def dev_bound(cfg, max_dev, tier):
    if cfg["B"] >= 3:
        return max_dev - 1
    return max_dev


def task(args):
    cfgs, max_dev, cap, tier = args
    p = Partial()
    for cfg in cfgs:
        capped = False
        n = 0
        def guarded(c, cfg=cfg):
            try:
                return run_one(cfg, c)
            except Exception as e:  # output that cannot even be decoded: a violation, never a harness crash
                return f"output_malformed:{type(e).__name__}", repr(e)

        for ch, res in explore(guarded, max_dev=dev_bound(cfg, max_dev, tier), cap=cap, diverged=lambda msg: (NOT_REPRODUCIBLE, msg)):
            if ch is None:
                capped = True
                break
            n += 1
            kind, info = res
            p.evaluations += 1
            if kind == "rejected":
                p.count("rejected")
                break
            if kind is not None:
                p.violation(signature(kind, cfg), dict(cfg=cfg_key(cfg), choices=ch.choices), f"{cfg_key(cfg)}: {kind}: {info}")
            else:
                p.observe((cfg["B"], cfg["hw"], cfg["kind"], cfg["lamb_mode"], cfg["shuffle_mode"], cfg["label"], info))
        if capped:
            p.count("configs_capped")
        p.count("configs")
    p.sample(dict(cfg=cfg_key(cfgs[0])))
    return p


def nonfinite_task(_):
    """Images with inf / -inf / NaN pixels (sensor dropouts, padding markers): a cutmix result is still sample i with one box
    of its partner pasted - every output pixel is, bit for bit, the pixel of x_i or of x_p(i) at that place."""
    import numpy as np
    import torch
    from kappadata.collators.kd_mix_collator import KDMixCollator
    p = Partial()
    for B in (2, 3, 4):
        for (H, W) in ((4, 4), (5, 6)):
            for lamb_mode in ("batch", "sample"):
                for shuffle_mode in ("roll", "flip"):
                    if shuffle_mode == "flip" and B % 2:
                        continue
                    for seed in range(6):
                        xs = []
                        for i in range(B):
                            x = torch.full((2, H, W), float(i + 1))
                            x[0, 0, 0] = float("inf")
                            x[1, H - 1, W - 1] = float("nan")
                            x[0, H // 2, W // 2] = float("-inf")
                            xs.append(x)
                        batch = [(xs[i].clone(), torch.nn.functional.one_hot(torch.tensor(i), B).float()) for i in range(B)]
                        case = dict(nonfinite=True, B=B, hw=(H, W), lamb_mode=lamb_mode, shuffle_mode=shuffle_mode, seed=seed)
                        p.evaluations += 1
                        try:
                            col = KDMixCollator(cutmix_p=1.0, cutmix_alpha=1.0, apply_mode="batch", lamb_mode=lamb_mode,
                                                shuffle_mode=shuffle_mode, dataset_mode="x class", return_ctx=False)
                            col.set_rng(np.random.default_rng(seed))
                            out_x, out_y = col(batch)
                        except Exception as e:
                            p.violation(f"C10:nonfinite:exception:{type(e).__name__}|lamb_mode={lamb_mode}", case, repr(e))
                            continue
                        for i in range(B):
                            partner = (i - 1) % B if shuffle_mode == "roll" else B - 1 - i
                            a, b, o = xs[i], xs[partner], out_x[i]
                            same_a = (o == a) | (torch.isnan(o) & torch.isnan(a))
                            same_b = (o == b) | (torch.isnan(o) & torch.isnan(b))
                            if not bool((same_a | same_b).all()):
                                r = (~(same_a | same_b)).nonzero()[0].tolist()
                                p.violation(f"C10:nonfinite:pixel_from_neither_sample|lamb_mode={lamb_mode}|shuffle={shuffle_mode}", case,
                                            f"{case}: sample {i} pixel {r} is {float(o[tuple(r)])}, x_i has {float(a[tuple(r)])}, the partner "
                                            f"{float(b[tuple(r)])}")
                                break
                        else:
                            p.observe(("nonfinite", B, H, W, lamb_mode, shuffle_mode, seed))
    return p


def mae_task(_):
    """MAE fine-tune collator (compose collator around the mix collator) as one more configuration."""
    import torch
    from kappadata.common.collators.mae_finetune_mix_collator import MAEFinetuneMixCollator
    p = Partial()
    for B in (2, 4):
        cfg = dict(B=B, hw=(3, 4), kind="both55", lamb_mode="batch", apply_mode="batch", shuffle_mode="flip",
                   mode="x class", return_ctx=False, label="onehot")

        def body(ch):
            col = MAEFinetuneMixCollator()
            col.set_rng(ChoiceRng(ch, unit=UNIT, beta=BETA))
            out = col(make_batch(cfg))
            x, y = out
            obs = []
            for i in range(B):
                try:
                    kind, pi, w = decode_image(x[i], i)
                    p2, w2 = decode_label(y[i], i, cfg)
                except ValueError as e:
                    return "malformed", str(e)
                pp = pi if pi is not None else p2
                if pi is not None and p2 is not None and pi != p2:
                    return "partner_differs_between_image_and_label", f"{pi} vs {p2}"
                if abs(w - w2) > TOL:
                    return "weight_differs_between_image_and_label", f"{w} vs {w2}"
                if pp is not None and pp != B - 1 - i:
                    return "partner_not_as_shuffle_mode", f"{pp}"
                obs.append((kind, pp, round(w2, 4)))
            return None, tuple(obs)

        for ch, (kind, info) in explore(body):
            p.evaluations += 1
            if kind is not None:
                p.violation(f"C10:mae_finetune_collator:{kind}", dict(mae=True, B=B, choices=ch.choices), f"B={B}: {kind}: {info}")
            else:
                p.observe(("mae", B, info))
    return p


def run(run):
    cfgs = configs(run.tier)
    max_dev = 2 if run.tier == "quick" else 3
    cap = 4000 if run.tier == "quick" else 6000
    k = run.seed % 7
    cfgs = cfgs[k:] + cfgs[:k]
    chunk = 12
    if run.tier == "quick":
        # apply_mode only matters together with per-sample draws; B=4 only on the smallest image
        cfgs = [c for c in cfgs if (c["apply_mode"] == "batch" or c["lamb_mode"] == "sample")
                and not (c["B"] == 4 and c["hw"] != (2, 2)) and not (c["B"] >= 3 and c["return_ctx"])]
    tasks = [(cfgs[i:i + chunk], max_dev, cap, run.tier) for i in range(0, len(cfgs), chunk)]
    run.pmap(task, tasks)
    run.pmap(mae_task, [0])
    run.pmap(nonfinite_task, [0])
    capped = run.counters.get("configs_capped", 0)
    run.exhaustive = capped == 0
    run.extra.update(bounds=dict(B="1..4", deviation_bound=f"{max_dev} ({max_dev - 1} for B>=3)", execution_cap_per_config=cap, unit_alphabet=UNIT,
                                 beta_alphabet=BETA, box_centres="full range", permutations="all B!"),
                     configs=len(cfgs), note="exhaustive=true means: every configuration x every execution with <= deviation_bound "
                     "non-default RNG answers was run (no per-config cap hit)")
    run.assumptions += [
        "the property is checked for RNG answers in the listed alphabets; values between alphabet points are not covered",
        "odd batch with shuffle_mode=flip is an explicit rejection",
    ]


def replay(case):
    from ..core.explorer import Chooser
    if case.get("mae"):
        p = mae_task(0)
        return None if not p.violations else "; ".join(m for _, m in p.violations.values())
    if case.get("nonfinite"):
        p = nonfinite_task(0)
        return None if not p.violations else "; ".join(m for _, m in list(p.violations.values())[:3])
    cfg = dict(case["cfg"])
    cfg["hw"] = tuple(cfg["hw"])
    cfg["kw"] = [c for c in configs("thorough") if c["kind"] == cfg["kind"]][0]["kw"]
    kind, info = run_one(cfg, Chooser(tuple(case["choices"])))
    return None if kind in (None, "rejected") else f"{kind}: {info}"
