"""C18 - collator pipeline keeps the batch layout and context contract (E1 product)."""
import itertools

from ..core.runner import Partial

LEVEL = "exploration"
RULE = ("dataset modes {x, x class, index x class} x return_ctx x every sequence of 1..3 recording collators over collation "
        "modes {None, before, after} (each optionally adding a context key) x the three entry points (compose collator, single "
        "collator called directly, single-collator wrapper) x batch sizes 1..3 (each also as the second call on a pipeline object that already collated a batch of another size, and with empty per-sample contexts), plus shipped collators inside a pipeline; "
        "default_collate is counted by a harness wrapper; reference model: the position of the one default collation and what "
        "each member must observe; padding collator: every length profile in {1,2,3}^b, b<=3, extra fixed-size fields, scalar "
        "fields, with/without per-sample contexts; distinct = distinct (configuration, observation) pairs")

MODES = (None, "before", "after")


def lib():
    import torch
    from kappadata.collators.base.kd_single_collator import KDSingleCollator

    class Rec(KDSingleCollator):
        def __init__(self, mode, add_key=None, log=None, **kw):
            super().__init__(**kw)
            self._mode = mode
            self.add_key = add_key
            self.log = log if log is not None else []

        @property
        def default_collate_mode(self):
            return self._mode

        def collate(self, batch, dataset_mode, ctx=None):
            first = batch[0] if isinstance(batch, (list, tuple)) and len(batch) else batch
            n_items = len(dataset_mode.split(" "))
            if n_items == 1:
                collated = torch.is_tensor(batch) and batch.ndim >= 1 and not isinstance(batch, (list, tuple))
            else:
                collated = isinstance(batch, (list, tuple)) and len(batch) == n_items and all(torch.is_tensor(b) for b in batch) \
                    and not (isinstance(first, (list, tuple)))
            ctx_batched = isinstance(ctx, dict) and all(torch.is_tensor(v) for v in ctx.values())
            self.log.append(dict(saw_collated=bool(collated), ctx_is_dict=isinstance(ctx, dict), ctx_batched=bool(ctx_batched),
                                 ctx_keys=sorted(ctx) if isinstance(ctx, dict) else None, mode=dataset_mode))
            if self.add_key is not None and isinstance(ctx, dict):
                ctx[self.add_key] = torch.tensor([7.0])
            return batch

    return Rec


EMPTY_CTX = [False]
REASSIGN = [False]  # True: built (and used once) with other settings; the public attributes are then set to the judged ones
FLAGTYPE = [None]  # None: python bool; "int": 1 / 0; "numpy": numpy.bool_ - how return_ctx is handed to the constructors
SHARED = [None]  # entry 'wrapper' only: the wrapped collator object is also used by a second wrapper with other settings
PRIOR = [0]  # > 0: the same pipeline object already collated a batch of that size before the judged call


def sample(mode, i, return_ctx):
    import torch
    items = {"x": torch.full((2, 2), float(i)), "class": i % 3, "index": i}
    s = tuple(items[m] for m in mode.split(" "))
    if len(s) == 1:
        s = s[0]
    if return_ctx:
        return (s, {} if EMPTY_CTX[0] else {"pre": float(i), "pre2": i})
    return s


def model(seq):
    """-> None if the runtime must reject the sequence, else list of 'saw_collated' per member and n collations (0|1)."""
    collated = False
    saw = []
    for m in seq:
        if m is None:
            if collated:
                return None
            saw.append(False)
        elif m == "before":
            collated = True
            saw.append(True)
        else:
            if collated:
                return None
            saw.append(False)
            collated = True
    return saw, 1 if collated else 0


def run_pipeline(entry, seq, adds, mode, return_ctx, B):
    import torch
    import kappadata.collators.base.kd_collator_base as base_mod
    from kappadata.collators.base.kd_compose_collator import KDComposeCollator
    from kappadata.collators.base.kd_single_collator_wrapper import KDSingleCollatorWrapper
    Rec = lib()
    log = []
    calls = []
    real = base_mod.default_collate

    def counting(b):
        kind = "ctx" if isinstance(b, (list, tuple)) and len(b) and isinstance(b[0], dict) else "batch"
        calls.append(kind)
        return real(b)

    batch = [sample(mode, i, return_ctx) for i in range(B)]
    if FLAGTYPE[0] == "int":
        return_ctx = int(return_ctx)
    elif FLAGTYPE[0] == "numpy":
        import numpy as np
        return_ctx = np.bool_(return_ctx)
    base_mod.default_collate = counting
    try:
        if REASSIGN[0]:
            # e.g. one collator object used for the train loader (with contexts) and then reconfigured for the eval loader
            other_mode = "class x" if mode != "class x" else "x"
            members = [Rec(m, a, log) for m, a in zip(seq, adds)]
            if entry == "compose":
                col = KDComposeCollator(members, dataset_mode=other_mode, return_ctx=not return_ctx)
            elif entry == "single":
                col = Rec(seq[0], adds[0], log, dataset_mode=other_mode, return_ctx=not return_ctx)
            else:
                col = KDSingleCollatorWrapper(members[0], dataset_mode=other_mode, return_ctx=not return_ctx)
            try:
                col([sample(other_mode, 30 + i, not return_ctx) for i in range(2)])
            except Exception:
                pass
            col.dataset_mode = mode
            col.return_ctx = return_ctx
            del log[:]
            del calls[:]
        elif entry == "compose":
            col = KDComposeCollator([Rec(m, a, log) for m, a in zip(seq, adds)], dataset_mode=mode, return_ctx=return_ctx)
        elif entry == "single":
            col = Rec(seq[0], adds[0], log, dataset_mode=mode, return_ctx=return_ctx)
        elif SHARED[0] is None:
            col = KDSingleCollatorWrapper(Rec(seq[0], adds[0], log), dataset_mode=mode, return_ctx=return_ctx)
        else:
            # collators are registered once and wrapped per loader (train loader with ctx, test loader without / other mode)
            other_mode = "class x" if mode != "class x" else "x"
            if SHARED[0] == "own_settings":
                rec = Rec(seq[0], adds[0], log, dataset_mode=other_mode, return_ctx=not return_ctx)
                col = KDSingleCollatorWrapper(rec, dataset_mode=mode, return_ctx=return_ctx)
            else:
                rec = Rec(seq[0], adds[0], log)
                if SHARED[0] == "other_first":
                    other = KDSingleCollatorWrapper(rec, dataset_mode=other_mode, return_ctx=not return_ctx)
                    col = KDSingleCollatorWrapper(rec, dataset_mode=mode, return_ctx=return_ctx)
                else:
                    col = KDSingleCollatorWrapper(rec, dataset_mode=mode, return_ctx=return_ctx)
                    other = KDSingleCollatorWrapper(rec, dataset_mode=other_mode, return_ctx=not return_ctx)
                try:
                    other([sample(other_mode, 20 + i, not return_ctx) for i in range(2)])
                except Exception:
                    pass
                del log[:]
                del calls[:]
        if PRIOR[0]:
            try:
                col([sample(mode, 10 + i, return_ctx) for i in range(PRIOR[0])])
            except Exception:
                pass
            del log[:]
            del calls[:]
        out = col(batch)
    finally:
        base_mod.default_collate = real
    return out, log, calls


def check_pipeline(entry, seq, adds, mode, return_ctx, B, p):
    import torch
    case = dict(entry=entry, seq=list(seq), adds=list(adds), mode=mode, return_ctx=return_ctx, B=B, empty_ctx=EMPTY_CTX[0], prior=PRIOR[0],
                shared=SHARED[0], flagtype=FLAGTYPE[0], reassign=REASSIGN[0])
    tag = (f"|entry={entry}|seq={'>'.join(str(m) for m in seq)}|return_ctx={return_ctx}{'|empty_ctx' if EMPTY_CTX[0] else ''}"
           f"{'|after_earlier_call' if PRIOR[0] else ''}{'|collator_shared:' + SHARED[0] if SHARED[0] else ''}"
           f"{'|flag_type=' + FLAGTYPE[0] if FLAGTYPE[0] else ''}{'|attributes_reassigned_after_use' if REASSIGN[0] else ''}")
    exp = model(seq)
    p.evaluations += 1
    try:
        out, log, calls = run_pipeline(entry, seq, adds, mode, return_ctx, B)
    except AssertionError as e:
        if exp is None:
            p.count("rejected_as_model")
            return
        p.violation(f"C18:accepted_sequence_rejected{tag}", case, f"{case}: AssertionError {e!r}")
        return
    except Exception as e:
        p.violation(f"C18:exception:{type(e).__name__}{tag}", case, f"{case}: {e!r}")
        return
    if exp is None:
        p.violation(f"C18:invalid_sequence_not_rejected{tag}", case, f"{case}: default collation asked for twice / after it happened, "
                    f"but the call returned")
        return
    try:
        _judge_pipeline(entry, seq, adds, mode, return_ctx, B, p, case, tag, exp, out, log, calls)
    except Exception as e:
        p.violation(f"C18:output_malformed:{type(e).__name__}{tag}", case, f"{case}: the output cannot be read as (batch[, batched ctx]): {e!r}")


def _judge_pipeline(entry, seq, adds, mode, return_ctx, B, p, case, tag, exp, out, log, calls):
    import torch
    saw, ncoll = exp

    def bad(kind, msg):
        p.violation(f"C18:{kind}{tag}", case, f"{case}: {msg}")

    if calls.count("batch") != ncoll:
        bad("default_collate_not_exactly_once", f"default_collate ran {calls.count('batch')} times on the batch, expected {ncoll}")
        return
    if [l["saw_collated"] for l in log] != saw:
        bad("member_sees_wrong_collation_state", f"members saw collated={[l['saw_collated'] for l in log]}, expected {saw}")
        return
    ctx = None
    if return_ctx:
        if not (isinstance(out, tuple) and len(out) == 2 and isinstance(out[1], dict)):
            bad("ctx_not_returned", f"returned {type(out).__name__}")
            return
        out, ctx = out
        want = (set() if EMPTY_CTX[0] else {"pre", "pre2"}) | {a for a in adds if a}
        if set(ctx) != want:
            bad("ctx_keys_lost_or_invented", f"ctx keys {sorted(ctx)}, expected {sorted(want)}")
            return
        if not EMPTY_CTX[0] and not (torch.is_tensor(ctx["pre"]) and ctx["pre"].tolist() == [float(i) for i in range(B)]
                                     and ctx["pre2"].tolist() == list(range(B))):
            bad("ctx_values_not_batched", f"{ctx}")
            return
        if any(not l["ctx_batched"] for l in log):
            bad("member_sees_unbatched_ctx", f"{log}")
            return
    else:
        if isinstance(out, tuple) and len(out) == 2 and isinstance(out[1], dict):
            bad("ctx_returned_unrequested", "")
            return
    # the keys a member finds in the context: the per-sample keys (if contexts are returned) plus what earlier members of THIS
    # call added - nothing else (nothing left over from an earlier batch)
    have = set(("pre", "pre2") if return_ctx and not EMPTY_CTX[0] else ())
    for k, (entry_log, add) in enumerate(zip(log, adds)):
        if entry_log["ctx_keys"] is not None and set(entry_log["ctx_keys"]) != have:
            bad("member_sees_foreign_ctx_keys", f"member {k} found ctx keys {entry_log['ctx_keys']}, expected {sorted(have)}")
            return
        if add:
            have.add(add)
    items = mode.split(" ")
    if ncoll == 1:
        vals = [out] if len(items) == 1 else list(out)
        if len(vals) != len(items):
            bad("layout_changed", f"{len(vals)} fields for mode '{mode}'")
            return
        for it, v in zip(items, vals):
            if not torch.is_tensor(v) or v.shape[0] != B:
                bad("layout_changed", f"field {it} is {type(v).__name__} {getattr(v, 'shape', None)}")
                return
            if it == "x" and (tuple(v.shape) != (B, 2, 2) or v[:, 0, 0].tolist() != [float(i) for i in range(B)]):
                bad("content_changed", f"x = {v.tolist()}")
                return
            if it == "class" and v.tolist() != [i % 3 for i in range(B)]:
                bad("content_changed", f"class = {v.tolist()}")
                return
            if it == "index" and v.tolist() != list(range(B)):
                bad("content_changed", f"index = {v.tolist()}")
                return
    else:
        if len(out) != B:
            bad("layout_changed", f"uncollated output has {len(out)} samples")
            return
    p.observe((entry, tuple(seq), tuple(adds), mode, return_ctx, B, tuple(calls)))


def shipped_pipeline(p):
    """Shipped collators inside a compose collator: layout and ctx contract."""
    import torch
    from kappadata.collators import KDComposeCollator, KDMixCollator, KDDinoMaskCollator
    for return_ctx in (False, True):
        for B in (2, 4):
            case = dict(shipped=True, return_ctx=return_ctx, B=B)
            try:
                col = KDComposeCollator([KDMixCollator(mixup_p=1.0, mixup_alpha=0.8, shuffle_mode="roll"),
                                         KDDinoMaskCollator(mask_ratio=(0.1, 0.5), mask_prob=0.5, mask_size=4, num_views=1)],
                                        dataset_mode="index x class", return_ctx=return_ctx)
                batch = []
                for i in range(B):
                    y = torch.zeros(3)
                    y[i % 3] = 1
                    s = (i, torch.full((1, 4, 4), float(i)), y)
                    batch.append((s, {"pre": float(i)}) if return_ctx else s)
                out = col(batch)
                p.evaluations += 1
                if return_ctx:
                    out, ctx = out
                    if not {"pre", "mask", "lambda", "apply", "use_cutmix"} <= set(ctx) or ctx["mask"].shape != (B, 4, 4):
                        p.violation("C18:shipped_pipeline:ctx_contract", case, f"ctx keys {sorted(ctx)}")
                idx, x, y = out
                if idx.tolist() != list(range(B)) or tuple(x.shape) != (B, 1, 4, 4) or tuple(y.shape) != (B, 3):
                    p.violation("C18:shipped_pipeline:layout_changed", case, f"{idx.tolist()} {tuple(x.shape)} {tuple(y.shape)}")
                else:
                    p.observe(("shipped", return_ctx, B))
            except Exception as e:
                p.violation(f"C18:shipped_pipeline:exception:{type(e).__name__}", case, repr(e))


def check_padding(profile, extra, scalar, return_ctx, single_item, p):
    import torch
    from kappadata.collators.pad_sequences_collator import PadSequencesCollator
    from torch.utils.data import default_collate
    B = len(profile)
    case = dict(padding=True, profile=list(profile), extra=extra, scalar=scalar, return_ctx=return_ctx, single_item=single_item)
    tag = f"|return_ctx={return_ctx}|single_item={single_item}|extra={extra}"
    samples = []
    for i, L in enumerate(profile):
        seq = torch.arange(1, L + 1, dtype=torch.float32) + 10 * i
        if single_item:
            s = seq
        else:
            s = (seq,)
            if extra:
                # a fixed-size field and a second variable-length field (lengths mirrored) - both are tensor fields
                s = s + (torch.full((3,), float(i)), torch.arange(1, (4 - L) + 1, dtype=torch.float32) * (i + 1))
            if scalar:
                # python scalars of every kind: int, a float that float32 cannot hold (unix timestamp), bool
                s = s + (i, 1695800000.25 + i, bool(i % 2))
            s = s + (torch.tensor(float(L)),)
        # contexts with the same keys, written in another order by every second sample (wrappers record keys as they run)
        cx = {"pre": float(i), "offset": 100 + i} if i % 2 == 0 else {"offset": 100 + i, "pre": float(i)}
        samples.append((s, cx) if return_ctx else s)
    mode = "x" if single_item else " ".join(["x"] + (["fixed", "y"] if extra else []) + (["index", "timestamp", "flag"] if scalar else []) + ["seqlen"])
    p.evaluations += 1
    try:
        out = PadSequencesCollator(dataset_mode=mode, return_ctx=return_ctx)(samples)
    except Exception as e:
        p.violation(f"C18:padding:exception:{type(e).__name__}{tag}", case, f"{case}: {e!r}")
        return
    if return_ctx and not single_item:
        # the same samples (with their contexts) through a padding collator that was NOT told about contexts: the context
        # column is then collated by the padding collator itself - key by key, like default collation
        try:
            out2 = PadSequencesCollator(dataset_mode=mode, return_ctx=False)(samples)
            ctx2 = out2[1] if isinstance(out2, (tuple, list)) and len(out2) == 2 and isinstance(out2[1], dict) else None
            if ctx2 is not None and (set(ctx2) != {"pre", "offset"} or [float(v) for v in ctx2["pre"]] != [float(i) for i in range(B)]
                                     or [int(v) for v in ctx2["offset"]] != [100 + i for i in range(B)]):
                p.violation(f"C18:padding:context_column_not_collated_by_key{tag}", case, f"contexts collated to {ctx2}")
                return
        except Exception as e:
            p.violation(f"C18:padding:exception:{type(e).__name__}{tag}|ctx_column", case, f"{case}: {e!r}")
            return
    if return_ctx:
        if not (isinstance(out, tuple) and len(out) == 2 and isinstance(out[1], dict)):
            p.violation(f"C18:padding:ctx_not_returned{tag}", case, f"{type(out)}")
            return
        out, ctx = out
        if set(ctx) != {"pre", "offset"} or not torch.is_tensor(ctx["pre"]) or ctx["pre"].tolist() != [float(i) for i in range(B)] \
                or ctx["offset"].tolist() != [100 + i for i in range(B)]:
            p.violation(f"C18:padding:ctx_wrong{tag}", case, f"{ctx}")
            return
    fields = [out] if single_item else list(out)
    x = fields[0]
    mx = max(profile)
    ok = torch.is_tensor(x) and tuple(x.shape) == (B, mx)
    if ok:
        for i, L in enumerate(profile):
            ok = ok and x[i, :L].tolist() == [float(v + 1 + 10 * i) for v in range(L)] and x[i, L:].abs().sum().item() == 0
    if not ok:
        p.violation(f"C18:padding:not_zero_padded_to_batch_max{tag}", case, f"profile {profile}: x = {x.tolist() if torch.is_tensor(x) else x}")
        return
    if not single_item:
        raw = [s[0] if return_ctx else s for s in samples]
        for k in range(1, len(fields)):
            if extra and k == 2:
                my = max(4 - L for L in profile)
                y = fields[k]
                good = torch.is_tensor(y) and tuple(y.shape) == (B, my)
                if good:
                    for i, L in enumerate(profile):
                        n = 4 - L
                        good = good and y[i, :n].tolist() == [float((v + 1) * (i + 1)) for v in range(n)] and \
                            y[i, n:].abs().sum().item() == 0
                if not good:
                    p.violation(f"C18:padding:second_variable_field_not_zero_padded{tag}", case, f"y = {y}")
                    return
                continue
            want = default_collate([r[k] for r in raw])
            if not (torch.is_tensor(fields[k]) and fields[k].shape == want.shape and fields[k].dtype == want.dtype
                    and torch.equal(fields[k], want)):
                p.violation(f"C18:padding:other_field_not_default_collated{tag}", case,
                            f"field {k}: {fields[k]} ({getattr(fields[k], 'dtype', None)}) vs default collation {want} ({want.dtype})")
                return
    p.observe(("pad", tuple(profile), extra, scalar, return_ctx, single_item))


def task(args):
    what, payload = args
    p = Partial()
    if what == "pipe":
        for entry, seq, adds in payload:
            for mode in ("x", "x class", "index x class"):
                for rc in (False, True):
                    for B in (1, 2, 3):
                        EMPTY_CTX[0] = False
                        check_pipeline(entry, seq, adds, mode, rc, B, p)
                        if B == 2:
                            REASSIGN[0] = True
                            try:
                                check_pipeline(entry, seq, adds, mode, rc, B, p)
                            finally:
                                REASSIGN[0] = False
                            for ft in ("int", "numpy"):
                                FLAGTYPE[0] = ft
                                try:
                                    check_pipeline(entry, seq, adds, mode, rc, B, p)
                                finally:
                                    FLAGTYPE[0] = None
                        if entry == "wrapper" and B == 2:
                            for sh in ("other_first", "other_second", "own_settings"):
                                SHARED[0] = sh
                                try:
                                    check_pipeline(entry, seq, adds, mode, rc, B, p)
                                finally:
                                    SHARED[0] = None
                        PRIOR[0] = B % 3 + 1  # the pipeline object is used for every batch of an epoch: no state may leak
                        try:
                            check_pipeline(entry, seq, adds, mode, rc, B, p)
                        finally:
                            PRIOR[0] = 0
                        if rc and B <= 2:
                            EMPTY_CTX[0] = True  # ModeWrapper(return_ctx=True) hands out {} when nothing records anything
                            try:
                                check_pipeline(entry, seq, adds, mode, rc, B, p)
                            finally:
                                EMPTY_CTX[0] = False
        p.sample(dict(entry=payload[0][0], sequence=list(payload[0][1]), adds=list(payload[0][2])))
    elif what == "shipped":
        shipped_pipeline(p)
    else:
        for b in (1, 2, 3):
            for profile in itertools.product((1, 2, 3), repeat=b):
                for extra, scalar, rc in itertools.product((False, True), repeat=3):
                    check_padding(profile, extra, scalar, rc, False, p)
                for rc in (False, True):
                    check_padding(profile, False, False, rc, True, p)
        p.sample(dict(padding_profiles="{1,2,3}^b for b<=3"))
    return p


def run(run):
    items = []
    for L in ((1, 2, 3) if run.tier == "quick" else (1, 2, 3, 4)):
        for seq in itertools.product(MODES, repeat=L):
            add_variants = [tuple([None] * L), tuple(f"k{i}" for i in range(L))]
            if run.tier == "thorough" and L > 1:
                add_variants += [tuple("k0" if i == 0 else None for i in range(L)), tuple("k9" if i == L - 1 else None for i in range(L))]
            for adds in add_variants:
                items.append(("compose", seq, adds))
                if L == 1:
                    items.append(("single", seq, adds))
                    items.append(("wrapper", seq, adds))
    chunk = 6
    tasks = [("pipe", items[i:i + chunk]) for i in range(0, len(items), chunk)] + [("shipped", None), ("pad", None)]
    run.pmap(task, tasks)
    run.extra.update(bounds=dict(sequence_len="1..3", modes=["x", "x class", "index x class"], batch_sizes="1..3",
                                 padding_profiles="{1,2,3}^b, b<=3"), pipelines=len(items))
    run.assumptions += [
        "a sequence that asks for default collation twice, or for an uncollated batch after collation, must be rejected "
        "(AssertionError) - the model's reading of 'that the constructor accepts'",
        "sequences with no 'before'/'after' member return the uncollated sample list",
    ]


def replay(case):
    p = Partial()
    if case.get("padding"):
        check_padding(tuple(case["profile"]), case["extra"], case["scalar"], case["return_ctx"], case["single_item"], p)
    elif case.get("shipped"):
        shipped_pipeline(p)
    else:
        EMPTY_CTX[0] = bool(case.get("empty_ctx"))
        PRIOR[0] = int(case.get("prior") or 0)
        SHARED[0] = case.get("shared")
        FLAGTYPE[0] = case.get("flagtype")
        REASSIGN[0] = bool(case.get("reassign"))
        try:
            check_pipeline(case["entry"], tuple(case["seq"]), tuple(case["adds"]), case["mode"], case["return_ctx"], case["B"], p)
        finally:
            EMPTY_CTX[0] = False
            PRIOR[0] = 0
            SHARED[0] = None
            FLAGTYPE[0] = None
            REASSIGN[0] = False
    return None if not p.violations else "; ".join(m for _, m in list(p.violations.values())[:3])
