"""C13 - balanced, semi-supervised and weighted samplers compose epochs as promised (E1 with TorchProxy + seeds)."""
import itertools

from ..core.explorer import Chooser, explore
from ..core.runner import Partial
from ..core.torch_proxy import TorchProxy
from .c12 import DS

LEVEL = "exploration"
RULE = ("all label layouts of length 2..L (class-balanced: <=3 classes, every class present; semi: labeled/-1 with both present) x "
        "samples_per_class None/1..5/7/8/11 (several whole passes plus a partial pass over a class) x chunk sizes 1..3 x 1..3 x the three length modes x weight vectors over {0,1,3} x sizes x "
        "world sizes 1..3 x all ranks; random draws: real seeds {0,1,2} x epochs {0,1}, and for pools <= 4 every answer of every "
        "permutation / multinomial draw (TorchProxy, capped per configuration); oracles: exact per-class counts over all ranks, "
        "even reuse within a class, strict labeled/unlabeled alternation, duplicate-free aligned pool windows, equal rank lengths "
        "and differently seeded rank streams, class labels stored as list / numpy / torch integer dtypes on a 140-sample layout "
        "(class-balanced), no index twice (weighted), valid indices, documented epoch length; "
        "distinct = distinct (configuration, epoch composition) observations")


def with_proxy(modname, chooser, fn):
    import importlib
    mod = importlib.import_module(modname)
    saved = mod.torch
    mod.torch = TorchProxy(chooser)
    try:
        return fn()
    finally:
        mod.torch = saved


# ------------------------------------------------------------------------------- class balanced

def check_balanced_streams(lay, spc, W, shuffle, streams, lens, p, case):
    n = len(lay)
    C = max(lay) + 1
    cnt = [lay.count(c) for c in range(C)]
    eff = C * (spc or max(cnt))
    per = eff // W
    tag = f"|spc={'default' if spc is None else 'set'}|W={'1' if W == 1 else 'many'}|shuffle={shuffle}"
    for r, (st, ln) in enumerate(zip(streams, lens)):
        if ln != per or len(st) != per:
            p.violation(f"C13:class_balanced:epoch_length_wrong{tag}", case, f"classes {lay} spc={spc} W={W}: rank {r} yields {len(st)}, "
                        f"len()={ln}, documented {per}")
            return
        if any(i < 0 or i >= n for i in st):
            p.violation(f"C13:class_balanced:invalid_index{tag}", case, f"classes {lay}: rank {r} stream {st}")
            return
    allidx = [i for st in streams for i in st]
    dropped = eff - per * W
    want = spc or max(cnt)
    for c in range(C):
        got = sum(1 for i in allidx if lay[i] == c)
        if not (want - dropped <= got <= want):
            p.violation(f"C13:class_balanced:per_class_count_wrong{tag}", case,
                        f"classes {lay} spc={spc} W={W}: class {c} has {got} indices over all ranks, promised {want} "
                        f"(at most {dropped} may sit in the dropped tail)")
            return
    if dropped == 0:
        for c in range(C):
            use = [allidx.count(i) for i in range(n) if lay[i] == c]
            if max(use) - min(use) > 1:
                p.violation(f"C13:class_balanced:uneven_reuse{tag}", case,
                            f"classes {lay} spc={spc} W={W}: class {c} samples used {use} times (should differ by <= 1)")
                return
    p.observe(("cb", tuple(lay), spc, W, tuple(sorted(allidx))))


CONTAINERS = ("numpy:uint8", "numpy:int8", "numpy:int16", "numpy:int32", "torch:uint8", "torch:int8", "torch:int16", "torch:int32", "torch:int64")


def balanced(lay, tier, p, container="list"):
    from kappadata.samplers.class_balanced_sampler import ClassBalancedSampler
    ds = DS(lay, container)
    for spc in ((None, 1, 2, 3, 4, 5, 7, 8, 11) if container == "list" else (None, 3)):
        for W in (1, 2, 3):
            for shuffle in (True, False):
                case = dict(sampler="class_balanced", classes=list(lay), spc=spc, W=W, shuffle=shuffle, container=container)
                # several whole passes over a class plus a partial one: more draws, so more real seeds
                many_passes = (spc or max(lay.count(c) for c in set(lay))) >= 2 * min(lay.count(c) for c in set(lay)) + 1
                seeds = ((0, 1, 2, 3, 4, 5) if many_passes else (0, 1, 2)) if shuffle else (0,)
                for seed in seeds:
                    for epoch in (((0, 1, 2) if many_passes else (0, 1)) if shuffle else (0,)):
                        streams, lens = [], []
                        second = []
                        for r in range(W):
                            s = ClassBalancedSampler(ds, shuffle=shuffle, samples_per_class=spc, seed=seed, rank=r, world_size=W)
                            s.set_epoch(epoch)
                            streams.append(list(s))
                            lens.append(len(s))
                            second.append(list(s))
                        p.evaluations += 1
                        check_balanced_streams(lay, spc, W, shuffle, streams, lens, p, dict(case, seed=seed, epoch=epoch))
                        check_balanced_streams(lay, spc, W, shuffle, second, lens, p, dict(case, seed=seed, epoch=epoch, second_iteration=True))
                        if W > 1 and seed == 0:
                            # the ranks do not use their sampler objects alike: rank 0 peeked at one index (a sanity
                            # check, a progress-bar probe) and has its own copy of the object; the epoch must still be one draw
                            import copy
                            uneven = []
                            for r in range(W):
                                s = ClassBalancedSampler(ds, shuffle=shuffle, samples_per_class=spc, seed=seed, rank=r, world_size=W)
                                s.set_epoch(epoch)
                                if r == 0:
                                    next(iter(s), None)
                                if r == W - 1:
                                    s = copy.deepcopy(s)
                                uneven.append(list(s))
                            check_balanced_streams(lay, spc, W, shuffle, uneven, lens, p,
                                                   dict(case, seed=seed, epoch=epoch, ranks_used_unevenly=True))
                # every permutation answer when all pools are small
                if container == "list" and shuffle and max(lay.count(c) for c in set(lay)) <= 3 and (spc or 0) <= 2 and len(lay) <= 4:
                    def body(ch):
                        s = ClassBalancedSampler(ds, shuffle=True, samples_per_class=spc, seed=0, rank=0, world_size=1)
                        return with_proxy("kappadata.samplers.class_balanced_sampler", ch, lambda: list(s))
                    k = 0
                    for ch, res in explore(body, cap=400):
                        if ch is None:
                            p.count("proxy_enumeration_capped")
                            break
                        k += 1
                        streams, lens = [], []
                        for r in range(W):
                            s = ClassBalancedSampler(ds, shuffle=True, samples_per_class=spc, seed=0, rank=r, world_size=W)
                            streams.append(with_proxy("kappadata.samplers.class_balanced_sampler", Chooser(tuple(ch.choices)),
                                                      lambda: list(s)))
                            lens.append(len(s))
                        p.evaluations += 1
                        check_balanced_streams(lay, spc, W, True, streams, lens, p, dict(case, choices=ch.choices))
                    p.count("proxy_answer_sequences", k)


# ------------------------------------------------------------------------------- semi supervised

def check_semi(lay, nl, nu, mode, W, streams, lens, p, case, check_rank_difference):
    n = len(lay)
    L = [i for i in range(n) if lay[i] != -1]
    U = [i for i in range(n) if lay[i] == -1]
    chunk = nl + nu
    chunks = {"labeled": len(L) // nl, "unlabeled": len(U) // nu, "all": n // chunk}[mode]
    per = chunks * chunk // W
    tag = f"|length_mode={mode}|W={'1' if W == 1 else 'many'}"
    for r, (st, ln) in enumerate(zip(streams, lens)):
        if ln != per or len(st) != per:
            p.violation(f"C13:semi:epoch_length_wrong{tag}", case, f"layout {lay} nl={nl} nu={nu} {mode} W={W}: rank {r} yields "
                        f"{len(st)}, len()={ln}, documented {per}")
            return
        lab_draws, unl_draws = [], []
        for k, i in enumerate(st):
            if i < 0 or i >= n:
                p.violation(f"C13:semi:invalid_index{tag}", case, f"layout {lay}: rank {r} stream {st}")
                return
            want_labeled = (k % chunk) < nl
            if (lay[i] != -1) != want_labeled:
                p.violation(f"C13:semi:alternation_broken{tag}", case,
                            f"layout {lay} nl={nl} nu={nu}: rank {r} position {k} is {'labeled' if lay[i] != -1 else 'unlabeled'}; stream {st}")
                return
            (lab_draws if want_labeled else unl_draws).append(i)
        for pool, draws, nm in ((L, lab_draws, "labeled"), (U, unl_draws, "unlabeled")):
            for a in range(0, len(draws), len(pool)):
                win = draws[a:a + len(pool)]
                if len(set(win)) != len(win):
                    p.violation(f"C13:semi:pool_element_repeated_before_pool_exhausted{tag}", case,
                                f"layout {lay} nl={nl} nu={nu}: rank {r} {nm} draws {draws}: window {win} repeats an element")
                    return
    if check_rank_difference and W > 1 and min(len(L), len(U)) >= 4 and per >= 8 and len({tuple(s) for s in streams}) == 1:
        p.violation(f"C13:semi:rank_streams_identical{tag}", case, f"layout {lay}: all {W} ranks yield {streams[0]}")
    p.observe(("semi", tuple(lay), nl, nu, mode, W, tuple(len(s) for s in streams)))


def semi(lay, tier, p):
    from kappadata.samplers.semi_sampler import SemiSampler
    ds = DS(lay)
    for nl, nu in itertools.product((1, 2, 3), repeat=2):
        for mode in ("labeled", "unlabeled", "all"):
            for W in (1, 2, 3):
                case = dict(sampler="semi", classes=list(lay), nl=nl, nu=nu, mode=mode, W=W)
                for seed in (0, 1, 2):
                    for epoch in (0, 1):
                        streams, lens = [], []
                        second = []
                        for r in range(W):
                            s = SemiSampler(ds, num_labeled=nl, num_unlabeled=nu, rank=r, world_size=W, seed=seed, length_mode=mode)
                            s.set_epoch(epoch)
                            streams.append(list(s))
                            lens.append(len(s))
                            second.append(list(s))
                        p.evaluations += 1
                        check_semi(lay, nl, nu, mode, W, streams, lens, p, dict(case, seed=seed, epoch=epoch), True)
                        check_semi(lay, nl, nu, mode, W, second, lens, p, dict(case, seed=seed, epoch=epoch, second_iteration=True), True)
                if len(lay) <= 4 and W == 1:
                    def body(ch):
                        s = SemiSampler(ds, num_labeled=nl, num_unlabeled=nu, rank=0, world_size=1, seed=0, length_mode=mode)
                        return with_proxy("kappadata.samplers.semi_sampler", ch, lambda: list(s)), len(s)
                    for ch, res in explore(body, cap=200):
                        if ch is None:
                            p.count("proxy_enumeration_capped")
                            break
                        p.evaluations += 1
                        check_semi(lay, nl, nu, mode, 1, [res[0]], [res[1]], p, dict(case, choices=ch.choices), False)
                        p.count("proxy_answer_sequences")


# ------------------------------------------------------------------------------- weighted

def weighted(n, tier, p):
    import torch
    from kappadata.samplers.weighted_sampler import WeightedSampler
    ds = DS([0] * n)
    wsets = [w for w in itertools.product((0.0, 1.0, 3.0), repeat=n) if any(x > 0 for x in w)] if n <= 4 else \
        [tuple([1.0] * n), tuple([3.0] + [1.0] * (n - 1)), tuple([1.0, 0.0] * (n // 2) + [3.0] * (n % 2)), tuple([0.0] + [1.0] * (n - 1))]
    for w in wsets:
        nz = sum(1 for x in w if x > 0)
        for size in (None,) + tuple(range(1, n + 1)):
            eff = n if size is None else size
            few_nonzero = eff > nz  # torch.multinomial then also hands out zero-weight indices (each once)
            for W in (1, 2, 3):
                case = dict(sampler="weighted", weights=list(w), size=size, W=W)
                tag = f"|size={'none' if size is None else 'set'}|W={'1' if W == 1 else 'many'}"
                runs = [("seed", s, e, None) for s in (0, 1, 2) for e in (0, 1)]
                if n <= 4 and not few_nonzero:
                    def body(ch):
                        s = WeightedSampler(ds, weights=torch.tensor(w), size=size, seed=0, rank=0, world_size=1)
                        return with_proxy("kappadata.samplers.weighted_sampler", ch, lambda: list(s))
                    for ch, _ in explore(body, cap=120):
                        if ch is None:
                            p.count("proxy_enumeration_capped")
                            break
                        runs.append(("choices", 0, 0, ch.choices))
                        p.count("proxy_answer_sequences")
                for how, seed, epoch, choices in runs:
                    streams, lens = [], []
                    try:
                        for r in range(W):
                            s = WeightedSampler(ds, weights=torch.tensor(w), size=size, seed=seed, rank=r, world_size=W)
                            s.set_epoch(epoch)
                            if choices is None:
                                if (seed + epoch + r) % 2:
                                    list(s)  # some ranks already iterated once (e.g. a sanity pass): must not matter
                                streams.append(list(s))
                            else:
                                streams.append(with_proxy("kappadata.samplers.weighted_sampler", Chooser(tuple(choices)), lambda: list(s)))
                            lens.append(len(s))
                    except Exception as e:
                        p.violation(f"C13:weighted:exception:{type(e).__name__}{tag}", dict(case, seed=seed, epoch=epoch), repr(e))
                        continue
                    p.evaluations += 1
                    allidx = [i for st in streams for i in st]
                    per = eff // W
                    c2 = dict(case, seed=seed, epoch=epoch, choices=choices)
                    if any(len(st) != per or ln != per for st, ln in zip(streams, lens)):
                        p.violation(f"C13:weighted:epoch_length_wrong{tag}", c2, f"weights {w} size={size} W={W}: lengths "
                                    f"{[len(s) for s in streams]} / len() {lens}, documented {per}")
                    elif len(set(allidx)) != len(allidx):
                        p.violation(f"C13:weighted:index_repeated_within_epoch{tag}", c2, f"weights {w} size={size} W={W}: {streams}")
                    elif any(i < 0 or i >= n for i in allidx):
                        p.violation(f"C13:weighted:invalid_index{tag}", c2, f"{streams}")
                    else:
                        p.observe(("w", w, size, W, tuple(sorted(allidx))))


def cb_layouts(maxlen):
    for n in range(2, maxlen + 1):
        for C in (2, 3):
            for lay in itertools.product(range(C), repeat=n):
                if set(lay) == set(range(C)):
                    yield lay


def semi_layouts(maxlen):
    for n in range(2, maxlen + 1):
        for lay in itertools.product((0, 1, -1), repeat=n):
            if -1 in lay and any(x != -1 for x in lay):
                # canonical labeled value: positions matter, label values do not; keep only label 0/1 patterns with 0 first
                labeled = [x for x in lay if x != -1]
                if labeled[0] != 0 or 1 in labeled and labeled.index(1) < labeled.index(0):
                    continue
                yield lay


def task(args):
    what, payload, tier = args
    p = Partial()
    def guarded(fn, arg, name):
        try:
            fn(arg, tier, p)
        except Exception as e:
            import traceback
            p.violation(f"C13:{name}:exception:{type(e).__name__}", dict(sampler=name, classes=list(arg) if not isinstance(arg, int) else None,
                                                                       weights=[1.0] * arg if isinstance(arg, int) else None),
                        f"{name} on {arg}: {e!r}\n{traceback.format_exc()[-600:]}")

    if what == "cb":
        for lay in payload:
            guarded(balanced, tuple(lay), "class_balanced")
    elif what == "cb_container":
        lay, container = payload
        try:
            balanced(tuple(lay), tier, p, container)
        except Exception as e:
            p.violation(f"C13:class_balanced:exception:{type(e).__name__}|container={container.split(':')[1]}",
                        dict(sampler="class_balanced", classes=list(lay), container=container), f"labels stored as {container}: {e!r}")
    elif what == "semi":
        for lay in payload:
            guarded(semi, tuple(lay), "semi")
    else:
        guarded(weighted, payload, "weighted")
    p.sample(dict(sampler=what, example=(payload[0] if what != "w" else payload) if what != "cb_container" else payload[1]))
    return p


def run(run):
    L = 5 if run.tier == "quick" else 6
    cb = list(cb_layouts(L))
    se = list(semi_layouts(L))
    # strongly imbalanced layouts (auto samples_per_class = several passes over the small class plus a partial pass)
    cb += [(0,) * a + (1,) * b for a, b in ((3, 8), (3, 11), (4, 11), (7, 20))] + [(0, 1, 2, 1, 0, 1, 1, 0, 1, 1, 2, 1, 2)]
    tasks = [("cb", cb[i:i + 6], run.tier) for i in range(0, len(cb), 6)]
    tasks += [("semi", se[i:i + 6], run.tier) for i in range(0, len(se), 6)]
    # two large layouts so that 'differently seeded per rank' (pools >= 4, >= 8 draws per rank) is exercised
    big = [(0, 1, 0, 1, -1, -1, -1, -1, 0, 1, -1, -1, 0, -1, 1, -1, 0, 1, 0, -1, -1, 1, -1, -1, 0, 1, -1, -1, 1, 0, -1, -1, 0, 1, -1, -1),
           tuple([0, -1] * 12)]
    tasks += [("semi", [b], run.tier) for b in big]
    tasks += [("w", n, run.tier) for n in range(1, L + 2)]
    # labels stored compactly (numpy / torch integer dtypes) on a dataset large enough for index arithmetic in the label
    # dtype to overflow (3 classes x 140 samples > 255; > 127)
    big_cb = tuple((i * 7 + i // 5) % 3 if i % 11 else 2 for i in range(140))
    tasks += [("cb_container", (lay, c), run.tier) for c in CONTAINERS for lay in (big_cb, (0, 1, 1, 2, 0, 1))]
    run.pmap(task, tasks)
    run.exhaustive = run.counters.get("proxy_enumeration_capped", 0) == 0
    run.extra.update(bounds=dict(layout_len=f"2..{L}", class_balanced_layouts=len(cb), semi_layouts=len(se), weights="{0,1,3}^n for n<=4",
                                 world_sizes="1..3", seeds="0..2", epochs="0..1"))
    run.assumptions += [
        "weighted sampler: size must not exceed the number of non-zero weights (torch.multinomial's own precondition)",
        "semi sampler: 'differently seeded per rank' is asserted only when both pools have >= 4 elements and >= 8 draws per rank",
        "with a dropped tail (effective length not divisible by the world size) per-class counts may miss at most the tail length",
    ]


def replay(case):
    p = Partial()
    s = case.get("sampler")
    if s == "class_balanced":
        balanced(tuple(case["classes"]), "quick", p, case.get("container", "list"))
    elif s == "semi":
        semi(tuple(case["classes"]), "quick", p)
    else:
        weighted(len(case["weights"]), "quick", p)
    return None if not p.violations else "; ".join(m for _, m in list(p.violations.values())[:3])
