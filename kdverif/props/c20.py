"""C20 - global-to-local copy is crash-safe and idempotent (E5: crash-point enumeration on a real directory tree)."""
import io
import os
import shutil
import tempfile
import zipfile

from ..core import crashfs
from ..core.runner import Partial

LEVEL = "fault_enumeration"
RULE = ("fixtures (plain folder with nested sub-folder, a 70 kB file and names sorting before/after the markers; single zip; "
        "folder of zips + README, also with upper-/mixed-case archive extensions) x relative_path None / nested x initial local state (absent, parent exists, user-provided "
        "folder, completed automatic copy) x num_workers 0/1 x directory listing order sorted/reversed x both copy functions; "
        "every crash point (file-system mutation about to happen, incl. intra-file transfer chunks and created-but-unflushed "
        "marker files) of attempt 1 is taken by killing a forked child with os._exit; from every distinct resulting tree every "
        "crash point of the next attempt (depth D), then one uninterrupted call and a second one; distinct = distinct crash "
        "states (tree digests)")

START, END = "autocopy_start.txt", "autocopy_end.txt"
# directory names with glob metacharacters and a space (legal: a path is a path, not a pattern)
DSNAME = "ds[16k] v1"
RELNAME = "nest[a]/ds[16k] v1"
# names: sorting before / after the markers, nested, and legal-but-unusual ones (consecutive dots, a leading dot with a space)
FILES = {"a.txt": b"alpha\n", "z.bin": bytes(range(200)), "sub/inner.txt": b"inner file\n", "big.bin": bytes([7]) * 70000,
         "take..2.wav": b"two dots\n", "sub/.hidden name.txt": b"dot file\n"}
LINKED = {"dup.bin": b"shared sample\n", "bank/b0.bin": b"bank zero\n"}
ZIP_SPLIT = {"batch_0.zip": ["a.txt", "sub/inner.txt", "take..2.wav"], "batch_1.zip": ["z.bin", "big.bin", "sub/.hidden name.txt"]}
ZIP_SPLIT3 = {"batch_0.zip": ["a.txt", "sub/.hidden name.txt"], "batch_1.zip": ["sub/inner.txt", "z.bin"], "batch_2.zip": ["big.bin", "take..2.wav"]}


def write_tree(root, t):
    if os.path.lexists(root):
        shutil.rmtree(root)
    if t is None:
        return
    os.makedirs(root)
    for k in sorted(t):
        p = os.path.join(root, k)
        if t[k][0] == "d":
            os.makedirs(p, exist_ok=True)
    for k, v in t.items():
        if v[0] == "f":
            p = os.path.join(root, k)
            os.makedirs(os.path.dirname(p), exist_ok=True)
            with open(p, "wb") as f:
                f.write(v[1])
        elif v[0] == "l":
            p = os.path.join(root, k)
            os.makedirs(os.path.dirname(p), exist_ok=True)
            os.symlink(v[1], p)


def make_zip(path, names):
    with zipfile.ZipFile(path, "w") as z:
        for n in names:
            z.writestr(n, FILES[n])


def build_source(groot, fmt, rel):
    src = os.path.join(groot, rel) if rel else groot
    if fmt in ("raw", "rawlinks"):
        for n, b in FILES.items():
            p = os.path.join(src, n)
            os.makedirs(os.path.dirname(p), exist_ok=True)
            with open(p, "wb") as f:
                f.write(b)
        if fmt == "rawlinks":
            # a dataset folder that links some samples / a sub-folder from a shared store OUTSIDE the folder (relative links),
            # plus one link inside the folder: the local copy must hold the bytes, not links that leave it
            store = os.path.join(groot, "_shared_store") if rel else os.path.join(os.path.dirname(groot), "_shared_store")
            os.makedirs(os.path.join(store, "bank"))
            for n, b in LINKED.items():
                with open(os.path.join(store, n), "wb") as f:
                    f.write(b)
            os.symlink(os.path.relpath(os.path.join(store, "dup.bin"), src), os.path.join(src, "linked.bin"))
            os.symlink(os.path.relpath(os.path.join(store, "bank"), src), os.path.join(src, "linkdir"))
            os.symlink("a.txt", os.path.join(src, "inner_link.txt"))
    elif fmt == "zip":
        os.makedirs(os.path.dirname(src), exist_ok=True)
        make_zip(src + ".zip", list(FILES))
    else:
        os.makedirs(src)
        for z, names in (ZIP_SPLIT3 if fmt == "zips3" else ZIP_SPLIT).items():
            if fmt == "zipsU":  # archives named by another tool: upper- / mixed-case extension
                z = z[:-4] + (".ZIP" if z.endswith("0.zip") else ".Zip")
            make_zip(os.path.join(src, z), names)
        with open(os.path.join(src, "README.txt"), "wb") as f:
            f.write(b"readme\n")


def expected_data(fmt, fn):
    """{relative name: bytes} of the data files a complete copy holds (markers excluded)."""
    if fmt in ("zips", "zips3") and fn == "image_folder":
        return {os.path.join(z[:-4], n): FILES[n] for z, names in (ZIP_SPLIT3 if fmt == "zips3" else ZIP_SPLIT).items() for n in names}
    if fmt == "rawlinks":
        return dict(FILES, **{"linked.bin": LINKED["dup.bin"], "linkdir/b0.bin": LINKED["bank/b0.bin"], "inner_link.txt": FILES["a.txt"]})
    return dict(FILES)


def get_fn(fn):
    if fn == "folder":
        import kappadata.copying.folder as m
        return m.copy_folder_from_global_to_local, m
    import kappadata.copying.image_folder as m
    return m.copy_imagefolder_from_global_to_local, m


class Scenario:
    def __init__(self, base, fmt, rel, initial, fn, workers, reverse):
        self.faults = "+faults" in fmt
        self.pathlib = "+path" in fmt  # arguments given as pathlib.Path objects (relative_path too) instead of strings
        fmt = fmt.split("+")[0]
        self.fmt, self.rel, self.initial, self.fn, self.workers, self.reverse = fmt, rel, initial, fn, workers, reverse
        self.root = tempfile.mkdtemp(prefix="kdv_c20_", dir=base)
        self.groot = os.path.join(self.root, "global", "" if rel else DSNAME)
        self.lroot_top = os.path.join(self.root, "local")
        self.lroot = os.path.join(self.lroot_top, "" if rel else DSNAME)
        self.groot = self.groot.rstrip("/")
        self.lroot = self.lroot.rstrip("/")
        build_source(self.groot, fmt, rel)
        self.dst_rel = os.path.relpath(os.path.join(self.lroot, rel) if rel else self.lroot, self.lroot_top)
        self.expected = expected_data(fmt, fn)
        self.source_tree = crashfs.tree(os.path.join(self.root, "global"))
        self.expected_alt = [self.expected]
        if fmt == "zipsU":
            # either reading is a complete copy: the files as they are (what the library does today), or their extracted content
            src_rel = os.path.relpath(os.path.join(self.groot, rel) if rel else self.groot, os.path.join(self.root, "global"))
            pre = "" if src_rel == "." else src_rel + os.sep
            raw = {k[len(pre):]: v[1] for k, v in self.source_tree.items() if k.startswith(pre) and v[0] == "f"}
            if fn == "image_folder":
                ex = {os.path.join(z[:-4], n): FILES[n] for z, names in ZIP_SPLIT.items() for n in names}
            else:
                ex = dict(FILES)
            self.expected, self.expected_alt = raw, [raw, ex]
        self.func, self.module = get_fn(fn)
        import kappadata.copying.copying_utils as cu
        self.modules = [self.module, cu]

    def desc(self):
        return dict(fmt=self.fmt + ("+faults" if self.faults else "") + ("+path" if self.pathlib else ""), rel=self.rel, initial=self.initial, fn=self.fn, workers=self.workers, reverse=self.reverse)

    def kwargs(self):
        if self.pathlib:
            from pathlib import Path
            return dict(global_path=Path(self.groot), local_path=Path(self.lroot),
                        relative_path=Path(self.rel) if self.rel else None, num_workers=self.workers)
        return dict(global_path=self.groot, local_path=self.lroot, relative_path=self.rel, num_workers=self.workers)

    def run(self, crash_at):
        before = self.local_tree()
        return crashfs.attempt(self.func, self.kwargs(), crash_at, self.reverse, self.root, self.modules,
                               restore=lambda: self.restore(before))

    def local_tree(self):
        return crashfs.tree(self.lroot_top)

    def restore(self, t):
        write_tree(self.lroot_top, t)

    def initial_tree(self):
        if self.initial == "absent":
            return None
        if self.initial == "parent":
            return self._parents_only()
        if self.initial == "manual":
            t = self._parents_only()
            t[self.dst_rel] = ("d",)
            t[os.path.join(self.dst_rel, "user_file.txt")] = ("f", b"provided by the user\n")
            t[os.path.join(self.dst_rel, "a.txt")] = ("f", b"an older, user-provided version\n")
            return t
        if self.initial == "complete":
            self.restore(None)
            r = self.run(None)
            if r["status"] != "returned":
                raise RuntimeError(f"harness: cannot build the 'complete' initial state: {r}")
            return self.local_tree()
        raise ValueError(self.initial)

    def _parents_only(self):
        t = {}
        parts = self.dst_rel.split(os.sep)[:-1]
        for i in range(1, len(parts) + 1):
            t[os.path.join(*parts[:i])] = ("d",)
        return t

    def data_of(self, t):
        """(data files under dst, has_start, has_end, dst_exists)"""
        if t is None:
            return {}, False, False, False
        pre = self.dst_rel + os.sep
        data = {k[len(pre):]: v[1] for k, v in t.items() if k.startswith(pre) and v[0] == "f"}
        for k, v in t.items():
            if k.startswith(pre) and v[0] == "l":
                # a link in the local copy counts as the bytes it shows only if it resolves INSIDE the copy
                tgt = os.path.normpath(os.path.join(os.path.dirname(k), v[1]))
                if not os.path.isabs(v[1]) and tgt.startswith(pre) and tgt in t and t[tgt][0] == "f":
                    data[k[len(pre):]] = t[tgt][1]
        s, e = data.pop(START, None) is not None, data.pop(END, None) is not None
        return data, s, e, (self.dst_rel in t or self.dst_rel == ".")

    def is_complete(self, t):
        data, s, e, _ = self.data_of(t)
        return s and e and any(data == alt for alt in self.expected_alt)

    def cleanup(self):
        shutil.rmtree(self.root, ignore_errors=True)

    # ---- environment faults: an unreadable zip on the global storage (repaired before the next attempt)
    def zip_paths(self):
        src = os.path.join(self.groot, self.rel) if self.rel else self.groot
        if self.fmt == "zip":
            return [src + ".zip"]
        if self.fmt in ("zips", "zips3"):
            return [os.path.join(src, z) for z in sorted(os.listdir(src)) if z.endswith(".zip")]
        return []

    def corrupt(self, path, kind):
        with open(path, "rb") as f:
            self._saved = (path, f.read())
        data = self._saved[1]
        if kind == "truncated":
            bad = data[:len(data) // 2]
        else:  # one payload byte of the last member flipped: the error surfaces while extracting, after earlier members
            with zipfile.ZipFile(path) as z:
                info = z.infolist()[-1]
            off = info.header_offset + 30 + len(info.filename.encode()) + max(0, info.compress_size // 2)
            bad = data[:off] + bytes([data[off] ^ 0xFF]) + data[off + 1:]
        with open(path, "wb") as f:
            f.write(bad)

    def repair(self):
        path, data = self._saved
        with open(path, "wb") as f:
            f.write(data)


def norm_op(op):
    if not op:
        return "start_of_call"
    kind, name = op[0], (op[1] if len(op) > 1 else "")
    base = os.path.basename(name or "")
    if base == START:
        what = "start_marker"
    elif base == END:
        what = "end_marker"
    elif kind in ("mkdir", "rmdir") and (base in (DSNAME,) or name in (".",)):
        what = "dst"
    elif kind in ("mkdir", "rmdir"):
        what = "dir"
    else:
        what = "data"
    return f"{kind}({what})"


def window(crash):
    """Classify where the last crash happened (signature material)."""
    ops, before = crash["ops"], crash["crash_before"]
    after = ops[-1] if ops else None
    removed_start = any(o[0] == "unlink" and os.path.basename(o[1]) == START for o in ops)
    created_start = any(o[0] == "create" and os.path.basename(o[1]) == START for o in ops)
    if removed_start and not created_start:
        return "rmtree_after_start_marker_unlinked"
    if after and after[0] == "mkdir" and before[0] == "create" and os.path.basename(before[1]) == START:
        return "after_mkdir_dst_before_start_marker"
    return f"after[{norm_op(after)}]_before[{norm_op(before)}]"


def final_checks(sc, state_tree, history, p):
    """From a state: one uninterrupted call, then a second one. Returns the ops of the first call (None on harness trouble)."""
    case = dict(scenario=sc.desc(), history=[h["crash_at"] for h in history])
    win = window(history[-1]["report"]) if history else "no_crash"
    tag = f"|fn={sc.fn}|window={win}"

    def bad(kind, msg):
        p.violation(f"C20:{kind}{tag}", case, f"{sc.desc()} after crash history {[h['crash_at'] for h in history]} "
                    f"(last crash: {history[-1]['report']['crash_before'] if history else None}): {msg}")

    sc.restore(state_tree)
    was_complete = sc.is_complete(state_tree)
    r1 = sc.run(None)
    p.evaluations += 1
    if r1["status"] == "harness_error":
        raise RuntimeError(f"harness: {r1}")
    if r1["status"] == "error":
        bad(f"call_raised:{r1['error'].split(':')[0]}", r1["error"])
        return None
    t1 = sc.local_tree()
    res = dict(r1["result"])
    # the copy's own file-system operations: below the local / global roots (a worker pool's private scratch folders under
    # the system temp directory are crash points, but not part of what the result object reports)
    ops1 = [o for o in r1["ops"] if len(o) > 1 and str(o[1]).split(os.sep)[0] in ("local", "global")]
    missing = [k for k in ("was_copied", "was_deleted") if k not in res]
    if missing:
        bad("result_untruthful", f"result object lacks {missing}: {res}")
        return None
    if crashfs.tree(os.path.join(sc.root, "global")) != sc.source_tree:
        bad("source_modified", "the global folder changed")
    if sc.initial == "manual":
        if t1 != state_tree:
            bad("user_provided_folder_modified", f"tree now {crashfs.tree_summary(t1)}")
        if res["was_copied"] or res["was_deleted"]:
            bad("result_untruthful", f"user-provided folder but result {res}")
    else:
        if not sc.is_complete(t1):
            data, s, e, _ = sc.data_of(t1)
            missing = sorted(set(sc.expected) - set(data))
            wrong = sorted(k for k in data if k in sc.expected and data[k] != sc.expected[k])
            extra = sorted(set(data) - set(sc.expected))
            kind = "interrupted_copy_reported_usable" if not res["was_copied"] else "copy_incomplete_after_normal_return"
            bad(kind, f"result {res}; local copy has start={s} end={e}, missing {missing}, differing {wrong}, extra {extra}")
        deleted = any(o[0] in ("unlink", "rmdir") for o in ops1)
        if bool(res["was_deleted"]) != deleted:
            bad("result_untruthful", f"was_deleted={res['was_deleted']} but the call {'did' if deleted else 'did not'} delete; ops {ops1[:6]}")
        if res["was_copied"] != bool(ops1):
            bad("result_untruthful", f"was_copied={res['was_copied']} but the call performed {len(ops1)} file-system mutations")
        if res["was_copied"]:
            if sc.fn == "folder" and sc.fmt != "zipsU" and \
                    res.get("source_format") != {"raw": "raw", "rawlinks": "raw", "zip": "zip", "zips": "zips", "zips3": "zips"}[sc.fmt]:
                bad("result_untruthful", f"source_format={res.get('source_format')} for a {sc.fmt} source")
            if sc.fn == "image_folder" and sc.fmt != "zipsU" and (bool(res.get("was_zip")), bool(res.get("was_zip_classwise"))) != \
                    (sc.fmt == "zip", sc.fmt in ("zips", "zips3")):
                bad("result_untruthful", f"{res} for a {sc.fmt} source")
        if was_complete and ops1:
            bad("completed_copy_deleted_or_redone", f"a completed automatic copy was touched: {ops1[:6]}")
    # second uninterrupted call: idempotent
    r2 = sc.run(None)
    p.evaluations += 1
    if r2["status"] != "returned":
        bad("second_call_failed", str(r2.get("error")))
    else:
        if [o for o in r2["ops"] if len(o) > 1 and str(o[1]).split(os.sep)[0] in ("local", "global")] or r2["result"]["was_copied"] or r2["result"]["was_deleted"] or sc.local_tree() != t1:
            bad("second_call_not_idempotent", f"second call: ops {r2['ops'][:6]} result {r2['result']}")
    p.observe((tuple(sorted(sc.desc().items())), crashfs.tree_digest(state_tree)))
    return r1["ops"]


def fault_attempt(sc, state, zip_index, kind):
    """One attempt while zip number zip_index is unreadable; the zip is repaired afterwards. -> (report, tree after)"""
    sc.restore(state)
    path = sc.zip_paths()[zip_index]
    sc.corrupt(path, kind)
    try:
        r = sc.run(None)
    finally:
        sc.repair()
    return r, sc.local_tree(), os.path.basename(path)


def explore_faults(sc, p):
    """An attempt is interrupted by an exception inside an unzip job instead of a kill: the call must not return normally
    with an incomplete copy, and the next attempt (zip readable again) must delete the incomplete copy and redo it."""
    init = sc.initial_tree()
    for zi in range(len(sc.zip_paths())):
        for kind in ("truncated", "member_damaged"):
            r, t, name = fault_attempt(sc, init, zi, kind)
            p.evaluations += 1
            p.count("fault_attempts")
            hist_key = f"fault:{zi}:{kind}"
            case = dict(scenario=sc.desc(), history=[hist_key])
            if r["status"] == "harness_error":
                raise RuntimeError(f"harness: {r}")
            if r["status"] == "returned":
                if not sc.is_complete(t):
                    data, s_, e_, _ = sc.data_of(t)
                    p.violation(f"C20:copy_incomplete_after_normal_return|fn={sc.fn}|window=unreadable_zip", case,
                                f"{sc.desc()} with {name} {kind}: the call returned {r['result']} although the copy has "
                                f"start={s_} end={e_} and misses {sorted(set(sc.expected) - set(data))}")
                    continue
            else:
                p.count("fault_attempt_raised")
            final_checks(sc, t, [dict(crash_at=hist_key, report=dict(ops=r["ops"], crash_before=["fault", name]))], p)
            p.state((tuple(sorted(sc.desc().items())), "fault", zi, kind, crashfs.tree_digest(t)))


def explore_scenario(sc, depth, p, cap_states):
    init = sc.initial_tree()
    seen = {crashfs.tree_digest(init)}
    frontier = [(init, [])]
    for d in range(depth + 1):
        nxt = []
        for state, hist in frontier:
            ops = final_checks(sc, state, hist, p)
            if ops is None or d == depth:
                continue
            for k in range(len(ops)):
                sc.restore(state)
                r = sc.run(k)
                p.evaluations += 1
                p.count("crash_points_taken")
                if r["status"] != "crashed":
                    if r["status"] == "returned":
                        raise RuntimeError(f"harness: crash point {k} of {len(ops)} was not reached in {sc.desc()} (nondeterministic op count)")
                    if r["status"] == "error":
                        p.violation(f"C20:call_raised:{r['error'].split(':')[0]}|fn={sc.fn}|fmt={sc.fmt}|window=during_attempt",
                                    dict(scenario=sc.desc(), history=[h["crash_at"] for h in hist] + [k]), r["error"])
                        continue
                    raise RuntimeError(f"harness: {r}")
                t = sc.local_tree()
                dg = crashfs.tree_digest(t)
                if dg in seen:
                    continue
                seen.add(dg)
                if len(seen) > cap_states:
                    p.count("state_cap_hit")
                    continue
                nxt.append((t, hist + [dict(crash_at=k, report=r)]))
        frontier = nxt
    p.count("distinct_crash_states", len(seen))
    return len(seen)


def scenarios(tier, seed):
    out = []
    for fn in ("folder", "image_folder"):
        for fmt in ("raw", "zip", "zips"):
            for rel in (None, RELNAME):
                for initial in ("absent", "parent", "manual", "complete"):
                    for workers in (0, 1):
                        for reverse in (False, True):
                            out.append((fmt, rel, initial, fn, workers, reverse))
    if tier == "quick":
        # quick: all formats x functions x initial states; listing order / workers / relative_path rotate
        sel = []
        for i, s in enumerate(out):
            fmt, rel, initial, fn, workers, reverse = s
            if initial in ("manual", "complete"):
                if rel is None and workers == 0 and not reverse:
                    sel.append(s)
                continue
            key = (("raw", "zip", "zips").index(fmt) + (fn == "image_folder") + seed) % 4
            combo = (2 * (rel is not None) + reverse) % 4
            if combo == key and workers == (1 if fmt == "zips" else 0):
                sel.append(s)
        out = sel
        out.append(("zips3", None, "parent", "folder", 2, False))
        out += [("zipsU", None, "parent", fn, 0, False) for fn in ("folder", "image_folder")]
        out += [("rawlinks", None, "parent", "folder", 0, False), ("rawlinks", RELNAME, "absent", "folder", 0, True),
                ("rawlinks", None, "parent", "image_folder", 0, False)]
        out += [("raw+path", RELNAME, "parent", "folder", 0, False), ("zips+path", None, "absent", "image_folder", 1, True),
                ("zip+path", RELNAME, "absent", "folder", 0, False), ("zip+path", None, "parent", "image_folder", 0, True)]
        for fn in ("folder", "image_folder"):
            out += [("zip+faults", None, "parent", fn, 0, False), ("zips+faults", None, "absent", fn, 0, False),
                    ("zips3+faults", RELNAME, "parent", fn, 1, True), ("zips3+faults", None, "parent", fn, 2, False)]
    else:
        out += [("rawlinks", rel, initial, fn, 0, rev) for fn in ("folder", "image_folder")
                for rel, initial, rev in ((None, "parent", False), (RELNAME, "absent", True), (None, "complete", False))]
        out += [(fmt + "+path", rel, initial, fn, 0, rev) for fn in ("folder", "image_folder") for fmt in ("raw", "zip", "zips")
                for rel, initial, rev in ((None, "parent", False), (RELNAME, "absent", True))]
        out += [("zipsU", rel, initial, fn, w, rev) for fn in ("folder", "image_folder") for rel, initial, w, rev in
                ((None, "parent", 0, False), (RELNAME, "absent", 1, True), (None, "complete", 0, False))]
        for fn in ("folder", "image_folder"):
            for fmt in ("zip", "zips", "zips3"):
                for workers in (0, 1, 2, 3):
                    for rel, initial, reverse in ((None, "parent", False), (RELNAME, "absent", True)):
                        out.append((fmt + "+faults", rel, initial, fn, workers, reverse))
        for fn in ("folder", "image_folder"):
            for workers in (2, 3):
                out.append(("zips3", None, "parent", fn, workers, False))
                out.append(("zips", RELNAME, "absent", fn, workers, True))
    return out


def task(args):
    specs, depth, cap_states = args
    if specs[0][4] >= 2 and "+faults" not in specs[0][0]:
        # joblib workers are separate interpreters: only the parent's own operations are crash points, and a call costs
        # seconds - explore the uninterrupted behaviour (quick) and crash histories of depth 1 (thorough)
        depth = 0 if depth <= 2 else 1
    p = Partial()
    base = tempfile.mkdtemp(prefix="kdv_c20_base_")
    try:
        for spec in specs:
            sc = Scenario(base, *spec)
            try:
                if "+faults" in spec[0]:
                    explore_faults(sc, p)
                else:
                    explore_scenario(sc, depth, p, cap_states)
            finally:
                sc.cleanup()
        p.sample(dict(scenario=dict(zip(("fmt", "rel", "initial", "fn", "workers", "reverse"), specs[0])), depth=depth))
    finally:
        shutil.rmtree(base, ignore_errors=True)
    return p


def strace_task(args):
    """Completeness of the interposer: every mutating syscall of an uninterrupted (delete + copy) attempt must be a point."""
    from ..core import crashfs_strace
    from ..core.runner import HarnessError
    p = Partial()
    status, detail = crashfs_strace.check(*args)
    p.count(f"interposer_strace_check_{status}")
    if status == "mismatch":
        raise HarnessError(f"interposer incomplete for {args}: {detail}")
    return p


def run(run):
    depth = 2 if run.tier == "quick" else 3
    cap_states = 400 if run.tier == "quick" else 4000
    specs = scenarios(run.tier, run.seed)
    run.pmap(task, [([s], depth, cap_states) for s in specs])
    combos = [("raw", "folder", "incomplete", False)] if run.tier == "quick" else \
        [(f, fn, "incomplete", rev) for f in ("raw", "zip", "zips") for fn in ("folder", "image_folder") for rev in (False, True)]
    run.pmap(strace_task, combos, nproc=4)
    run.exhaustive = run.counters.get("state_cap_hit", 0) == 0
    run.extra.update(bounds=dict(crash_depth=depth, scenarios=len(specs), distinct_state_cap_per_scenario=cap_states,
                                 transfer_chunk_bytes=crashfs.CHUNK),
                     crash_points_taken=run.counters.get("crash_points_taken", 0),
                     distinct_crash_states=run.counters.get("distinct_crash_states", 0))
    run.assumptions += [
        "interposer completeness: one delete+copy attempt per fixture runs under strace -f and every mutating syscall must "
        "match an interposer point (counter interposer_strace_check_ok; 'skipped' where strace cannot attach)",
        "a crash is process death (os._exit): no fsync / power-loss reasoning; trees are compared by names, kinds and bytes",
        "metadata-only operations (chmod, utime) are not crash points",
        "num_workers >= 2: the joblib children are separate interpreters and are not interposed; explored are the uninterrupted "
        "call + idempotence (quick) and the parent's own crash points to depth 1 (thorough), on a fixture whose zip count is not "
        "a multiple of the worker count",
        "for a folder of zips the complete copy is the union of the zip contents (the README is not part of the dataset)",
    ]


def replay(case):
    p = Partial()
    sd = case["scenario"]
    base = tempfile.mkdtemp(prefix="kdv_c20_replay_")
    try:
        sc = Scenario(base, sd["fmt"], sd["rel"], sd["initial"], sd["fn"], sd["workers"], sd["reverse"])
        state = sc.initial_tree()
        hist = []
        for k in case["history"]:
            if isinstance(k, str) and k.startswith("fault:"):
                _, zi, kind = k.split(":")
                r, state, name = fault_attempt(sc, state, int(zi), kind)
                if r["status"] == "returned" and not sc.is_complete(state):
                    sc.cleanup()
                    return f"the call returned normally ({r['result']}) while {name} was unreadable ({kind}); the copy is incomplete"
                hist.append(dict(crash_at=k, report=dict(ops=r["ops"], crash_before=["fault", name])))
                continue
            sc.restore(state)
            r = sc.run(k)
            if r["status"] != "crashed":
                return f"harness: crash point {k} not reached on replay: {r['status']}"
            state = sc.local_tree()
            hist.append(dict(crash_at=k, report=r))
        final_checks(sc, state, hist, p)
        sc.cleanup()
    finally:
        shutil.rmtree(base, ignore_errors=True)
    return None if not p.violations else "; ".join(m for _, m in list(p.violations.values())[:3])
