"""Reference model of the interleaved epoch/update/sample batch scheduler.

Written from the statements of C04/C05/C06, *not* by transcribing the implementation's loop:
the model first lays out the complete main stream as a list of updates (epoch, chunk), then
decides for every update which side passes are due, then cuts at the budget.

A configuration is a plain tuple (picklable, JSON-able):
    geo  = (N, B, drop_last, dlbs)
    bud  = (kind, value)            kind in 'epochs' | 'updates' | 'samples'
    cfgs = tuple of (ene, enu, ens, slen, dlen, cbs)
           slen = len of the config's sampler, dlen = len of its data source (>= slen), cbs = batch size or None

Events of a trace:
    ('E', e)                 set_epoch(e) announced to the main sampler
    ('M', last, idx)         main index, last = closes a batch
    ('S', c, last, idx)      side index of config c, already shifted into the global index range
"""
from math import ceil


def per_epoch(N, B, drop_last, dlbs):
    if not drop_last:
        return N
    D = dlbs if dlbs is not None else B
    return (N // D) * D


def main_indices(N, e):
    """What the harness main sampler yields in epoch e: e*N + i (valid in a data source of N*(E+1))."""
    return [e * N + i for i in range(N)]


def side_offsets(main_dlen, cfgs):
    offs, o = [], main_dlen
    for c in cfgs:
        offs.append(o)
        o += c[4]
    return offs


def side_pass(ci, cfg, B, off):
    ene, enu, ens, slen, dlen, cbs = cfg
    bs = cbs or B
    ev = []
    for j in range(slen):
        last = ((j + 1) % bs == 0) or (j + 1 == slen)
        # harness side sampler yields slen-1-j (reversed) so that order matters
        ev.append(('S', ci, last, off + (slen - 1 - j)))
    return ev


def due(cfg, closes_epoch, e, u, s_prev, s):
    ene, enu, ens = cfg[0], cfg[1], cfg[2]
    d = False
    if ene is not None and closes_epoch and e % ene == 0:
        d = True
    if enu is not None and u % enu == 0:
        d = True
    if ens is not None and (s_prev // ens) < (s // ens):
        d = True
    return d


def trace(geo, bud, cfgs, main_dlen, start=None, states=None, has_set_epoch=True, idx_fn=main_indices):
    """Full uninterrupted trace. Returns (events, marks) where marks[k] = (event position, update, sample)
    right after the passes triggered by the last update of epoch k-1 (k >= 1): the resume points."""
    N, B, drop_last, dlbs = geo
    kind, value = bud
    offs = side_offsets(main_dlen, cfgs)
    ev = []
    if value == 0:
        for ci, c in enumerate(cfgs):
            ev += side_pass(ci, c, B, offs[ci])
        return ev, {}
    pe = per_epoch(N, B, drop_last, dlbs)
    assert pe > 0
    chunks = [(i, min(i + B, pe)) for i in range(0, pe, B)]
    e = u = s = 0
    marks = {}
    while True:
        if has_set_epoch:
            ev.append(('E', e))
        idxs = idx_fn(N, e)[:pe]
        for ck, (a, b) in enumerate(chunks):
            for p in range(a, b):
                ev.append(('M', p == b - 1, idxs[p]))
                if states is not None:
                    states.add((e, u, s + (p - a), p, p - a))
            s_prev = s
            s += b - a
            u += 1
            closes = ck == len(chunks) - 1
            if closes:
                e += 1
            for ci, c in enumerate(cfgs):
                if due(c, closes, e, u, s_prev, s):
                    ev += side_pass(ci, c, B, offs[ci])
            if closes:
                marks[e] = (len(ev), u, s)
            if (kind == 'epochs' and e == value) or (kind == 'updates' and u == value) or \
                    (kind == 'samples' and s >= value):
                return ev, marks


def batches(events):
    """Cut a trace into batches as a batch sampler must: (kind, config, [indices])."""
    out, cur = [], []
    for x in events:
        if x[0] == 'E':
            continue
        if x[0] == 'M':
            cur.append(('M', None, x[2]))
            last = x[1]
        else:
            cur.append(('S', x[1], x[3]))
            last = x[2]
        if last:
            out.append(cur)
            cur = []
    return out, cur
